#!/bin/sh
# usage: tools/run_all.sh [tier] [ids...]   -- run every registered check in turn from /verif; prints exit status and wall time
cd "$(dirname "$0")/.."
TIER=${1:-quick}; [ $# -gt 0 ] && shift
IDS=${*:-"C01 C02 C03 C04 C05 C06 C07 C08 C09 C10 C11 C12 C13 C14 C15 C16 C17 C18 C19 C20"}
for id in $IDS; do
  s=$(date +%s)
  ./check $id $TIER > /tmp/run_all_$id.log 2>&1; rc=$?
  e=$(date +%s)
  echo "$id $TIER exit=$rc $((e-s))s $(grep -c '^VIOLATION' /tmp/run_all_$id.log) violation(s) $(grep -c '^KNOWN-FINDING' /tmp/run_all_$id.log) known; $(tail -1 /tmp/run_all_$id.log | cut -c1-160)"
done
