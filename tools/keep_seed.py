#!/usr/bin/env python3
"""usage: keep_seed.py <change-dir> <seeded-name> <check-id> <detected yes|no|after-strengthening> <note>"""
import json, os, shutil, sys
src, name, cid, det, note = sys.argv[1:6]
dst = os.path.join("/verif/seeded", name)
os.makedirs(dst, exist_ok=True)
for f in ("patch.diff", "demo.py"):
    shutil.copy(os.path.join(src, f), os.path.join(dst, f))
meta = json.load(open(os.path.join(src, "meta.json")))
meta["confirmed_by_me"] = {
    "demo_on_clean_tree": "exit 0 (PASS)",
    "demo_on_patched_tree": "exit 1 (FAIL)",
    "baseline_tests_with_patch": meta.get("tests_run", "see agent report"),
    "check": f"./check {cid} quick against a scratch copy of /repo/src with patch.diff applied (tools/seed_eval.sh)",
    "detected": det,
    "note": note,
}
json.dump(meta, open(os.path.join(dst, "meta.json"), "w"), indent=1)
print("kept", dst)
