#!/bin/sh
# usage: tools/seed_eval.sh <change-dir (patch.diff, demo.py, meta.json)> <ID> [tier]
# 1. demo passes on the clean tree and fails with the patch (scratch copy, PYTHONPATH)   2. run the check against the patched copy
C=$(readlink -f "$1"); ID=$2; TIER=${3:-quick}
D=$(mktemp -d /tmp/cmv-seed-XXXXXX); trap 'rm -rf "$D"' EXIT
mkdir -p "$D/clean" "$D/mut"; cp -r /repo/src /repo/pyproject.toml "$D/clean/"; cp -r /repo/src /repo/pyproject.toml "$D/mut/"
ln -s /repo/tests "$D/mut/tests"; (cd "$D/mut" && patch -p1 -s < "$C/patch.diff") || { echo "PATCH DOES NOT APPLY"; exit 3; }
E="PATH=/venv/bin:$PATH SEMGREP_SEND_METRICS=off SEMGREP_ENABLE_VERSION_CHECK=0"
(cd "$D" && env $E PYTHONPATH="$D/clean/src" /venv/bin/python "$C/demo.py" >/dev/null 2>&1); echo "demo on clean: exit $?"
(cd "$D" && env $E PYTHONPATH="$D/mut/src" /venv/bin/python "$C/demo.py" >/dev/null 2>&1); echo "demo on patched: exit $?"
cd "$(dirname "$0")/.."
CMV_ONLY="$CMV_ONLY" CMV_REPO="$D/mut" CMV_EVIDENCE_DIR="$D/evidence" ./check "$ID" "$TIER" 2>&1 | grep -E "VIOLATION|KNOWN-FINDING|signature:|HARNESS|cases," | cut -c1-260
