#!/usr/bin/env python3
"""Print the prompt for a mutation sub-agent: property text + its scratch worktree. Nothing from /verif is given."""
import json, sys
pid, wt = sys.argv[1], sys.argv[2]
p = next(json.loads(l) for l in open("/verif/properties.jsonl") if json.loads(l)["id"] == pid)
print(f"""You are helping to evaluate a verification effort for the open-source project pixee/codemodder-python (a libcst-based framework of Python codemods that rewrite insecure/low-quality code and emit CodeTF reports). Your job: craft realistic BUGS (small source changes) that break ONE stated semantic property of the project while everything still compiles/imports and the project's existing test suite still passes.

Your private scratch copy of the repository is a git worktree at: {wt}
Work ONLY inside that directory. Never read, write or run anything under /repo or /verif (they are off limits), and do not create other worktrees.

How to run code from your worktree (important: the virtualenv's editable install points elsewhere, so you MUST set PYTHONPATH):
  cd {wt} && PYTHONPATH={wt}/src PATH=/venv/bin:$PATH SEMGREP_SEND_METRICS=off SEMGREP_ENABLE_VERSION_CHECK=0 /venv/bin/python ...
The existing test suite (must still pass with your change; about 10 minutes because many tests start semgrep: while iterating run only the test files near your change, and the full suite once per finished change):
  cd {wt} && PYTHONPATH={wt}/src PATH=/venv/bin:$PATH SEMGREP_SEND_METRICS=off SEMGREP_ENABLE_VERSION_CHECK=0 /venv/bin/python -m pytest -q -p no:cacheprovider -n 6 tests
(Without your change, everything passes except tests/test_codetf.py (needs network) and 4 LLM tests in tests/test_context.py; those fail before and after and do not count. There is no network.)
The CLI entry point is `codemodder.codemodder.run(argv) -> int` (console script `codemodder`); e.g.
  PYTHONPATH={wt}/src PATH=/venv/bin:$PATH SEMGREP_SEND_METRICS=off SEMGREP_ENABLE_VERSION_CHECK=0 /venv/bin/python -c "import sys; from codemodder.codemodder import run; sys.exit(run(sys.argv[1:]))" <dir> --codemod-include pixee:python/use-set-literal --output out.codetf

THE PROPERTY ({p['id']}: {p['title']}):
  Statement: {p['statement']}
  Quantification: {p['quantifier']['text']}
  Code it is anchored in: {', '.join(p['anchors']['files'])}

WHAT TO PRODUCE: two (2) independent changes to the source under {wt}/src, each of which
  * breaks the property above (the observable behaviour the statement describes becomes wrong for some inputs),
  * still imports/compiles and keeps the existing test suite passing (same pass/fail set as without the change),
  * is realistic: the kind of slip a maintainer could make in a refactoring or "optimisation" (an off-by-one, a dropped guard, a wrong default, a cache keyed too coarsely, an ordering change, a condition inverted for one branch, two sites that each look fine alone ...), NOT a deliberately hidden backdoor and NOT something keyed to a magic string,
  * needs something SPECIFIC to manifest - a particular kind of input, a multi-step sequence, an unusual-but-legal combination of options, a particular file layout, a fault at a particular point - i.e. ordinary single-file default use would NOT expose it at once. Prefer changes in different files/mechanisms for the two.
For each change i in {{1,2}} write into {wt}/_seeded/change<i>/ :
  patch.diff   - `git diff` of ONLY that change against the worktree's HEAD (so it applies with `git apply` at the repo root; make each patch independent: produce change 1, save the diff, `git checkout -- src`, then do change 2; NEVER use `git stash` - stashes are shared between worktrees and other people work in sibling worktrees)
  demo.py      - a small self-contained program (uses a temp dir; no network) run as `PYTHONPATH=<repo>/src ... /venv/bin/python demo.py` that exits 0 and prints PASS when the property holds (i.e. WITHOUT the change) and exits 1 and prints FAIL with an explanation WITH the change. It must observe the property through public behaviour (CLI run / public API), not by inspecting the source.
  meta.json    - {{"property": "{p['id']}", "title": "...one line...", "what_breaks": "...", "needs_to_manifest": "...the specific input/sequence/layout needed...", "files_changed": [...], "tests_run": "...command and result summary..."}}
Verify yourself: demo passes on the clean worktree, fails with the patch applied, and the test suite result is unchanged with the patch applied. Leave the worktree's src clean (git checkout -- src) at the end; only the _seeded/ directory should remain as untracked output.
Finish with a short report: for each change, one paragraph on what it does and how it manifests.""")
