# executed by mkmanifest.py: one check(...) call per claimed property
check(
    "C17", "exploration",
    "Generated-input search (Hypothesis, seeded) against a reference selection model written from the statement: thousands of include/exclude lists on the real and on synthetic registries through CodemodRegistry.match_codemods, plus end-to-end CLI runs whose executed sequence is read from the log and from results[].codemod. Exploration is the right level: the input space (lists of ids/patterns x registries x modes) is unbounded and the oracle is a 20-line reference function.",
    "Trusted: my reference selection (glob '*' only, whole-id match, first occurrence wins, explicit exclude replaces the default exclusions, SAST mode iff sonar issues or SARIF); ids/patterns restricted to the id alphabet; e2e include lists restricted to detector-less codemods to keep runs cheap (default-set runs are separate shards).",
    "Hypothesis property-based testing vs. reference model (direct API + CLI end-to-end)",
    "DESIGN.md §3 C17",
)
