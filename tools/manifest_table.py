# executed by mkmanifest.py: one check(...) call per claimed property
check(
    "C17", "exploration",
    "Generated-input search (Hypothesis, seeded) against a reference selection model written from the statement: thousands of include/exclude lists on the real and on synthetic registries through CodemodRegistry.match_codemods, plus end-to-end CLI runs whose executed sequence is read from the log and from results[].codemod. Exploration is the right level: the input space (lists of ids/patterns x registries x modes) is unbounded and the oracle is a 20-line reference function.",
    "Trusted: my reference selection (glob '*' only, whole-id match, first occurrence wins, explicit exclude replaces the default exclusions, SAST mode iff sonar issues or SARIF); ids/patterns restricted to the id alphabet; e2e include lists restricted to detector-less codemods to keep runs cheap (default-set runs are separate shards).",
    "Hypothesis property-based testing vs. reference model (direct API + CLI end-to-end)",
    "DESIGN.md §3 C17",
)
check(
    "C12", "exploration",
    "Model-based generated search: a Hypothesis RuleBasedStateMachine drives histories of ResultSet operations (add_result, a|b, a|=b) against one Counter per set, invariant after every step; generated Sonar/SARIF/DefectDojo document families go through the loader functions the detectors use and are compared as multisets with an independent reference extractor; the same families go through the CLI, where the ResultSet handed to each SAST codemod is captured in the forked child. Exploration fits: histories and documents are unbounded, the oracle (multiset union / 40-line extractor) is simple and independent.",
    "Trusted: my reference extractors (what counts as open, which run belongs to which tool, component->path); statuses restricted to unambiguous ones; every Sonar entry has a status; identity only where the format has one (Sonar key, DefectDojo id); CodeQL has no registered codemod so it is checked at loader level only.",
    "Hypothesis stateful model-based testing + generated documents vs. reference extraction (loader level and CLI)",
    "DESIGN.md §3 C12",
)
