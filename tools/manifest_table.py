# executed by mkmanifest.py: one check(...) call per claimed property
check(
    "C17", "exploration",
    "Generated-input search (Hypothesis, seeded) against a reference selection model written from the statement: thousands of include/exclude lists on the real and on synthetic registries through CodemodRegistry.match_codemods, plus end-to-end CLI runs whose executed sequence is read from the log and from results[].codemod. Exploration is the right level: the input space (lists of ids/patterns x registries x modes) is unbounded and the oracle is a 20-line reference function.",
    "Trusted: my reference selection (glob '*' only, whole-id match, first occurrence wins, explicit exclude replaces the default exclusions, SAST mode iff sonar issues or SARIF); ids/patterns restricted to the id alphabet; e2e include lists restricted to detector-less codemods to keep runs cheap (default-set runs are separate shards).",
    "Hypothesis property-based testing vs. reference model (direct API + CLI end-to-end); coverage-guided atheris/libFuzzer stage driving the same strategy and oracle on match_codemods",
    "DESIGN.md §3 C17",
)
check(
    "C12", "exploration",
    "Model-based generated search: a Hypothesis RuleBasedStateMachine drives histories of ResultSet operations (add_result, a|b, a|=b) against one Counter per set, invariant after every step; generated Sonar/SARIF/DefectDojo document families go through the loader functions the detectors use and are compared as multisets with an independent reference extractor; the same families (incl. SARIF files holding runs of several tools in either order) go through the CLI, where the ResultSet handed to each SAST codemod is captured in the forked child. Exploration fits: histories and documents are unbounded, the oracle (multiset union / 40-line extractor) is simple and independent.",
    "Trusted: my reference extractors (what counts as open, which run belongs to which tool, component->path); statuses restricted to unambiguous ones; every Sonar entry has a status; identity only where the format has one (Sonar key, DefectDojo id); CodeQL has no registered codemod so it is checked at loader level only.",
    "Hypothesis stateful model-based testing + generated documents vs. reference extraction (loader level and CLI); coverage-guided atheris/libFuzzer stage on the document loaders",
    "DESIGN.md §3 C12",
)
check(
    "C20", "exploration",
    "Generated-input search over argv vectors and the world they refer to (directory, result files per tool option, AI-client environment, output path kind, a changed source file whose name is not valid UTF-8), each executed as a real CLI run in a forked child whose exit status is compared with a reference decision list written from the statement; plus the clause 'non-zero => report not written'. Exploration fits: the option grammar is unbounded, the oracle is a ten-line decision list.",
    "Trusted: the reference decision list; weaker readings where the statement gives no order (info action + argument error: 0 or 3; status-1 condition + inconsistent AI configuration: 1 or 3); malformed documents unspecified. Root sandbox: EACCES unreachable, substitutes are directory / missing parent / path through a file / /dev/full. OpenAI clients cannot be constructed in this environment, so only inconsistent OpenAI settings and (in)consistent Azure Llama settings are generated. Thorough tier repeats a sample through /venv/bin/codemodder as a subprocess.",
    "Hypothesis property-based testing of the CLI vs. reference decision list (fork-isolated real runs)",
    "DESIGN.md §3 C20",
)
check(
    "C05", "exploration",
    "Generated-input search at two levels: match_files on generated path and glob lists against an independently written glob/selection reference; and end-to-end runs on generated trees (test/build/venv/VCS dirs, non-Python files, symlinked files and directories inside and outside the target) with generated include/exclude lists in four modes (detector-less find-and-fix, semgrep-rule-detected find-and-fix through real semgrep on trees mixing trigger and plain files, Sonar-driven, and a dependency-adding codemod whose requirements.txt is a regular file or a symlink to a file outside the target), where the set of files whose bytes changed is read from before/after snapshots of the whole sandbox and must equal trigger files ∩ reference selection, with nothing created, deleted or modified elsewhere. A calibration run that selects everything confirms the trigger files of every tree.",
    "Trusted: my glob translation (fnmatch semantics: '*' crosses '/', whole relative path), the frozen default-exclude list, the single cheap trigger per mode (use-set-literal; sonar fix-assert-tuple). ':N' patterns are chosen so C13's line semantics do not interfere. Symlink loops / permission errors not generated.",
    "Hypothesis property-based testing vs. reference glob model; snapshot differencing of real CLI runs; coverage-guided atheris/libFuzzer stage on match_files",
    "DESIGN.md §3 C05",
)
check(
    "C19", "exploration",
    "Generated-input search on the public pipeline API with a real execution context: text files (LF/CRLF/mixed, exotic separators, no final newline, byte order mark) x safe regex family x finding sets through RegexTransformerPipeline / SastRegexTransformerPipeline against a reference model (re.sub on targeted lines, identity elsewhere, one change per edited line with the findings covering it, dry-run untouched, strict diff round-trip); recursive XML documents written by an own serialiser x attribute maps / new elements x finding modes through XMLTransformerPipeline, before/after compared as canonical trees built by lxml/libxml2 (independent of the expat/SAX stack), expected tree = original with exactly the targeted edits. Exploration fits: documents and edits are unbounded; oracles are a reference model and an independent parser.",
    "Trusted: lxml/libxml2 as the judge of XML content; weak reading of 'insignificant whitespace' (whitespace-only text dropped, text chunks stripped at markup boundaries); XML declaration and empty-element spelling not compared; regex patterns never match line terminators and both readings of 'line' (with/without terminator) are accepted; findings with columns only on elements preceded by ASCII text.",
    "Hypothesis property-based testing vs. reference edit model; differential XML parsing (libxml2 vs expat); strict unified-diff applier; coverage-guided atheris/libFuzzer stage on both pipelines",
    "DESIGN.md §3 C19",
)
check(
    "C01", "exploration",
    "Generated-input search over the program space for all 101 registered codemods (detector-less, semgrep-rule-detected through the real semgrep binary, SAST-driven with shifted and replicated tool documents): harvested trigger snippets x wrap contexts x layout/EOL/BOM/tab variants x 1-3 sites per file, each run through the real CLI in a forked child; the bytes found on disk afterwards are judged by CPython's compile()/ast.parse(). Exploration fits: the domain is all Python programs; the oracle is the language's own parser.",
    "Trusted: CPython's parser as validity judge; harvested seeds are what the repository's authors consider triggers; transformations are validity-preserving (compile-checked, ops that break validity are dropped and counted). Multi-codemod sequences are covered by C09's histories. UTF-8 only.",
    "Hypothesis property-based testing over a seeded program space; CPython compile/ast.parse as oracle",
    "DESIGN.md §3 C01",
)
check(
    "C02", "exploration",
    "Same generated program space as C01, judged by an invariant computed with the stdlib symtable (independent of libcst): the set of names read but bound neither in an enclosing scope, at module level nor as builtins must not grow across the rewrite. Catches dropped imports/assignments still in use (incl. closure reads), missing added imports, and garbage identifiers.",
    "Trusted: symtable-based unresolved-name computation (flow-insensitive, as the statement phrases it); star-import files skipped and counted; attribute-level errors are out of scope.",
    "Hypothesis property-based testing; scope-aware unresolved-name invariant (stdlib symtable)",
    "DESIGN.md §3 C02",
)
check(
    "C07", "exploration",
    "Generated-input search for the idempotence law: for every registered codemod, generated programs (several sites per file, nested contexts, aliases, layout variants; SAST result files reused unchanged) are run twice through the real CLI with identical argv; after run 2 the tree snapshot must equal the snapshot after run 1 and report 2 must carry no changeset.",
    "Trusted: tree snapshots; both runs are complete CLI invocations (semgrep runs in both for rule-detected codemods).",
    "Hypothesis property-based testing of run(run(P)) == run(P) with real CLI runs and snapshots",
    "DESIGN.md §3 C07",
)
check(
    "C03", "exploration",
    "Round-trip oracle over generated runs: (a) every registered codemod on generated programs (contexts, CRLF/mixed EOL, BOM, tabs, form feed, no final newline); (b) generated projects with multi-trigger files and a dependency manifest (four formats x LF/CRLF/no-final-newline/trailing blanks; setup.py that itself carries a site of a later codemod) under sequences of 2-4 codemods in one run, one project in four with a rule-detected codemod and use-set-literal rewriting the same line in either order. An own strict unified-diff applier (lines split on \\n only, exact hunk positions/context) folds the report's diffs in report order over the pre-run bytes and must reproduce the bytes on disk up to the final newline; every changeset must move its file; every path without a changeset is byte-identical; nothing is created or deleted.",
    "Trusted: my diff applier (cross-checked against difflib output on the unchanged tree by the fact that the check is quiet, and by seeded mutants); report order = execution order; final newline not compared (statement's tolerance).",
    "Hypothesis property-based testing; diff round-trip with an independent strict applier; snapshot differencing",
    "DESIGN.md §3 C03",
)
check(
    "C15", "exploration",
    "Validity-predicate search over generated run shapes (0-4 codemods of every kind incl. unknown ids and same-named codemods of several origins in one run; 0-4 generated programs; undecodable/syntax-error/empty/NUL files; empty or non-Python-only directories; non-ASCII and astral file names and content; manifests; --dry-run; four directory spellings): every report of a run that exits 0 is validated against a hand-written JSON Schema and structural invariants that relate it to the registry (id, summary, description, references), the executed sequence (log), and the tree snapshots (changeset paths exist, diffs non-empty, change line numbers inside the file, failed/changed disjoint, SAST tool/rule/finding ids within the codemod's declared rules).",
    "Trusted: the hand-written schema (the official CodeTF schema is only available from the network); line numbers accepted in original or new numbering; runs that exit non-zero are outside the statement's premise and are counted, not judged.",
    "Hypothesis property-based testing; JSON Schema + structural invariants as validity predicate",
    "DESIGN.md §3 C15",
)
check(
    "C04", "exploration",
    "Differential generated search: for every registered codemod a generated project (programs of the C01 space, optional manifest of each kind/variant for dependency-adding codemods) and generated CLI options are run with --dry-run (whole-tree snapshot must be byte-identical afterwards: nothing created, modified or deleted) and then for real on the same tree; the two reports must be equal after removing run.elapsed and run.commandLine.",
    "Trusted: snapshots of the target directory; the other configuration of the same code (real run) as the reference for the report; single codemod per case as the statement says.",
    "Hypothesis property-based testing; differential dry-run vs real run + snapshot equality",
    "DESIGN.md §3 C04",
)
check(
    "C09", "exploration",
    "Differential search over generated histories: projects of multi-trigger files (seeds of several codemods concatenated in separate scopes; hand-written same-line co-triggers) plus manifests, under generated sequences of 2-5 codemods (rule-detected ones and dependency adders included; the whole default set in the thorough tier); half of the projects also hold a file no codemod can parse and copies of a trigger file under vendor/ and node_modules/. Copy A runs the sequence in one invocation, copy B runs one invocation per codemod in order on the evolving tree; final trees must be byte-identical and each per-codemod result (changesets with diffs and changes, failed files, unfixed findings, description with dependency notice) equal. The batch tree is also judged by C01's validity oracle.",
    "Trusted: the sequential configuration of the same code as the reference; order of change entries inside a changeset compared as a multiset; failed files compared relative to the project.",
    "Hypothesis property-based testing; differential batch vs. sequential histories with tree snapshots",
    "DESIGN.md §3 C09",
)
check(
    "C10", "fault_enumeration",
    "Fault injection with a differential oracle: generated projects (3-6 trigger files, 1-3 codemods, detector-less / real-semgrep / SAST pipelines) x fault kind (invalid UTF-8, NUL, syntax error, empty file, file vanishing between listing and reading, parser raising for the victim, transformer raising at the j-th visited node) x victim position x worker count; invalid bytes are appended as a comment or placed inside string literals at the start of every statement (left of the detector's match), SAST victims carry 1-2 findings with ids of their own, and a deterministic grid pipeline kind x fault kind is covered in every run besides the random plans. The run with the fault is compared with the fault-free run of the same project: every other file must end with the same bytes and changesets; the victim is unchanged, has no changeset from a codemod that failed on it, is listed as failed by the codemods that selected it, every one of its SAST findings is reported unfixed (by id for DefectDojo); exit 0; report schema-valid. The only shipped two-transformer pipeline (DefectDojo avoid-insecure-deserialization) gets a plan of its own whose victim holds a site of each transformer, with the transformer fault injected at points spread over all visited nodes (24 in quick, every node in thorough). The thorough tier also enumerates every visited-node index j of the victim exhaustively for sampled plans.",
    "Trusted: seams at libcst.parse_module / MatcherDecoratableTransformer.on_visit / pathlib.Path.read_bytes applied in the forked child (no repository hooks); the fault-free run as reference; faults are exceptions and bad bytes, not process kills.",
    "fault injection at library seams + differential vs. fault-free run (Hypothesis-drawn plans; exhaustive j enumeration in thorough)",
    "DESIGN.md §3 C10",
)
check(
    "C11", "exploration",
    "Metamorphic generated search: the same generated project and codemod selection is run (a) with w=1 and with w in {2,3,8} under Hypothesis-drawn per-file delay schedules injected at the libcst.parse_module seam and a permuted file creation order: normalised report and tree must be identical (completion order is observed to differ from input order); (b) in fresh interpreters under different PYTHONHASHSEED values, including cross-collection wildcard selections, paths that differ only in letter case, and the whole default set whose order comes from the registry; (c) with and without sibling files: bytes and changeset of a file must not depend on its siblings; (d) under an in-flight monitor at the same seam: with every parse sleeping 30 ms and 8-14 files the number of files simultaneously in flight must not exceed --max-workers.",
    "Trusted: the harness owns per-file delays, not the GIL (interleavings inside one file's transformation are not enumerated); normalisation removes only elapsed, commandLine and the absolute directory.",
    "Hypothesis property-based metamorphic testing with schedule injection and an in-flight monitor at a library seam",
    "DESIGN.md §3 C11",
)
check(
    "C13", "exploration",
    "Differential generated search against the unfiltered run of the same codemod: for every find-and-fix codemod a file with 2-5 sites is built from per-function copies of harvested triggers; which lines are single-line sites is measured (1->1 replaced logical lines that the unfiltered run reports a change entry for); Hypothesis draws proper subsets as --path-exclude / --path-include path:line entries spelled relative, with '*' / '**/' globs or absolute (one spelling for the whole list or a different one per entry), alone or with a file-level pattern, with and without a same-named twin file elsewhere in the tree. Forbidden lines must be byte-identical, permitted sites rewritten exactly as in the unfiltered run, no change entry may name a forbidden line, and every rewritten single-line site must have a change entry with its line.",
    "Trusted: the unfiltered run as reference for what a site is and how it is rewritten; change line numbers accepted in original or new numbering; multi-line constructs exempt (logical lines computed with tokenize).",
    "Hypothesis property-based testing; differential filtered vs. unfiltered run with measured site lines",
    "DESIGN.md §3 C13",
)
check(
    "C06", "exploration",
    "Metamorphic generated search grounded in the repository's own SAST fixtures (input + tool document harvested from each of the 37 SAST codemods' unit tests; locations are shifted and replicated, never invented): 1-4 copies of a fixture in def/method/nested/if/... contexts with tab/CRLF/prepended-line layouts; a calibration run reports every site; then subsets of the findings (all 2^n subsets for n <= 3 in the thorough tier) and decoys (foreign rule at the same location, same rule for another file, RESOLVED/REVIEWED/FIXED/CLOSED copies of the findings of an *unreported* site in the issues or hotspots list, foreign-tool SARIF run, empty document) are reported, in one result file or spread over two files of the same tool, with and without --verbose, Sonar components bare or prefixed with a project key that may itself contain colons. Sites in the subset must end up exactly as in the calibration run, all other text must be unchanged, decoys and the empty document produce no change and no changeset, every rewritten site has a change entry carrying a finding of its rule (and id for DefectDojo), no entry carries an unreported rule or id.",
    "Trusted: the calibration run as the definition of 'equally vulnerable site' (copies not acted on there are dropped and counted); fixtures as ground truth for each tool's location convention; finding identity by rule (by id for DefectDojo).",
    "Hypothesis property-based metamorphic testing over harvested tool fixtures (subset/decoy relations vs. full-report run)",
    "DESIGN.md §3 C06",
)
check(
    "C14", "exploration",
    "Grammar-based generated search with independent judges: manifest texts in the four formats (requirements.txt with pins/ranges/extras/markers/URLs/-r,-c,-e/comments/CRLF/BOM/empty/trailing blanks; pyproject.toml with [project] inline/multi-line/empty/absent and poetry tables; setup.py literal/non-literal/absent install_requires incl. setuptools.setup; setup.cfg newline- and comma-separated) in projects with 0-3 manifests (nested, some already declaring the package under another spelling), under the dependency-adding codemods through the real CLI, twice. tomllib / ast / configparser / packaging decide: at most one manifest changes, it still parses, reqs(before) subset of reqs(after), the new package exactly once by PEP 503 name, non-dependency content preserved, a declaring manifest untouched, second run adds nothing, 'could not add' notice when nothing is updatable. A RuleBasedStateMachine drives histories (run adder / user appends a requirement / rerun) with the same invariants after every step.",
    "Trusted: the stdlib/packaging parsers as format judges; per-manifest reading of 'already declared'; TOML/cfg unrelated content compared after parsing, txt/py textually.",
    "grammar-based Hypothesis generation + stateful histories; independent parsers as oracles",
    "DESIGN.md §3 C14",
)
check(
    "C18", "exploration",
    "Generated search through the real semgrep binary for the 22 rule-detected codemods: harvested triggers whose bare form is flagged and rewritten (declined shapes are recognised operationally and exempt, counted) x the program-space transformations (aliases, contexts, layouts, extra arguments, quote styles, two sites per line, nested sites, non-ASCII text before the site, attribute access broken over lines in parentheses), as a deterministic single-feature sweep plus random multi-feature batches. The harness runs semgrep itself with the codemod's rule text before and after the CLI run: every flagged location must be touched by the diff or its file listed as failed, and after the run the rule must not match inside any statement the run rewrote.",
    "Trusted: semgrep 1.90 in /venv/bin as the detector (rule text taken from the repository, invocation and JSON parsing by the harness); declined shapes = the repository's negative tests + bare seeds that are flagged but left alone + shapes the transformations manufacture by construction (tuple-valued operands, several with-items), all counted in the evidence.",
    "Hypothesis property-based testing + deterministic sweep; detector/transformer agreement and re-detection via independent semgrep runs",
    "DESIGN.md §3 C18",
)
check(
    "C16", "exploration",
    "Metamorphic generated search for the 22 hardening codemods: the documented delta of a trigger is the NAME/NUMBER/STRING token difference (strings by value, import lines excluded) the codemod makes on the untransformed harvested trigger, whose exact output the repository's unit tests pin. Variants add positional/keyword/star arguments and trailing commas, nest the site in its own argument, repeat it on a line, change contexts, layouts, quoting, add non-ASCII text, duplicate imports and further sites (deterministic single-feature sweep + random multi-feature batches). On every rewritten variant the tokens added and removed must lie inside the trigger's delta, and a sequence alignment of the non-import tokens must show no token outside the delta deleted, inserted or moved (a reordered argument is a delete+insert).",
    "Trusted: the bare-trigger run as the definition of the documented delta (cross-checked by hand with core_codemods/docs, DESIGN.md appendix A); tokenize/ast from the stdlib; comments, whitespace, operators and import statements are not compared here.",
    "Hypothesis property-based metamorphic testing; token-multiset and token-sequence comparison (stdlib tokenize)",
    "DESIGN.md §3 C16",
)
check(
    "C08", "exploration",
    "Differential execution over grammar-generated programs: for each of the 18 refactoring codemods a Hypothesis grammar produces closed, deterministic programs that print their observables (and/or/not trees with optional parentheses over startswith/endswith and isinstance/issubclass calls with scalar, tuple and name arguments; `not` over every comparison operator, chains and is/in with int/str/None/list/set/NaN operands; any/all/sum/min/max over list comprehensions with start/key/default arguments; set() forms; placeholder-free f-strings; assignment-then-if shapes at module and function level; hasattr __call__; logging.warn and %-/+-formatted logging calls at enabled and disabled levels; open() resource patterns on private temp files; lock with-statements; module-level global; unused/unordered/__future__ imports of side-effect-free stdlib modules; abc deprecated decorators; SQL string building against an in-memory sqlite3 table with benign values). Batches go through the real CLI; each program the codemod changed is executed before and after in forked children and stdout plus the escaping exception type must be equal.",
    "Trusted: CPython as the semantics; equivalence is observed on the generated runtime values only; stderr is merged into stdout (logging errors become visible); programs that do not compile or time out (6 s) are discarded and counted. Known findings C08-K1..K3 are rewrites whose non-equivalent output is pinned by the repository's own tests.",
    "grammar-based Hypothesis generation + differential execution (before/after codemod) in forked interpreters",
    "DESIGN.md §3 C08",
)
