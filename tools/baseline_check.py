#!/usr/bin/env python3
"""Run the repository's pinned test suite (guard off) and compare with BASELINE.json stable_pass.
usage: tools/baseline_check.py [-n N] [--repo DIR] [--semgrep]   (prints regressions; exit 1 if any stable test no longer passes)"""
import json, os, subprocess, sys, tempfile
import xml.etree.ElementTree as ET

b = json.load(open("/root/.vp/BASELINE.json"))
stable = set(b["stable_pass"])
fd, out = tempfile.mkstemp(suffix=".xml"); os.close(fd)
env = dict(os.environ); env.pop("PIXEE_CODEMODDER_PYTHON_VERIF", None)
n = sys.argv[sys.argv.index("-n") + 1] if "-n" in sys.argv else "14"
cmd = ["/venv/bin/python", "-m", "pytest", "-q", "-p", "no:cacheprovider", "--timeout=900", "--continue-on-collection-errors", "-n", n, f"--junitxml={out}"]
repo = sys.argv[sys.argv.index("--repo") + 1] if "--repo" in sys.argv else "/repo"
if repo != "/repo":
    env["PYTHONPATH"] = repo + "/src"
if "--semgrep" in sys.argv:  # also lets the semgrep-dependent (non-baseline) tests run: ~16 min instead of ~3
    env["PATH"] = "/venv/bin:" + env.get("PATH", "")
subprocess.run(cmd, cwd=repo, env=env, stdout=subprocess.DEVNULL, stderr=subprocess.DEVNULL)
passed = set()
for tc in ET.parse(out).getroot().iter("testcase"):
    if not any(c.tag in ("failure", "error", "skipped") for c in tc):
        passed.add(f"{tc.get('classname')}::{tc.get('name')}")
os.unlink(out)
lost = sorted(stable - passed)
print(f"stable_pass={len(stable)} passed_now={len(passed)} lost={len(lost)}")
for t in lost[:40]: print("LOST", t)
sys.exit(1 if lost else 0)
