#!/bin/sh
# usage: tools/mutant.sh <patch.diff> <ID> [tier]   -- run a check against a scratch copy of /repo with the patch applied
# (the scratch copy lives under /tmp and is removed afterwards; /repo is never touched; evidence is redirected)
set -e
PATCH=$(readlink -f "$1"); ID=$2; TIER=${3:-quick}
D=$(mktemp -d /tmp/cmv-mut-XXXXXX)
trap 'rm -rf "$D"' EXIT
mkdir -p "$D/repo"
cp -r /repo/src /repo/pyproject.toml "$D/repo/"
ln -s /repo/tests "$D/repo/tests"; (cd "$D/repo" && patch -p1 -s < "$PATCH")
cd "$(dirname "$0")/.."
set +e
CMV_REPO="$D/repo" CMV_EVIDENCE_DIR="$D/evidence" ./check "$ID" "$TIER" 2>&1 | grep -E "VIOLATION|KNOWN-FINDING|signature:|HARNESS|cases," | cut -c1-300
exit 0
