#!/usr/bin/env python3
"""Regenerate the generated tables of DESIGN.md (between <!-- BEGIN:x --> / <!-- END:x --> markers) from
known_findings.json and seeded/*/meta.json.   usage: python3 tools/design_tables.py"""
import glob, json, os, re

ROOT = os.path.dirname(os.path.dirname(os.path.abspath(__file__)))
kf = json.load(open(f"{ROOT}/known_findings.json"))


def esc(s):
    return str(s).replace("|", "\\|").replace("\n", " ")


def findings():
    out = ["| id | property | what fails | why recorded, not repaired | replay |", "|---|---|---|---|---|"]
    for f in kf["findings"]:
        out.append(f"| {f['id']} | {f['property']} | {esc(f['what_fails'])} | {esc(f.get('why_not_fixed', ''))} | {esc(f.get('replay') or '-')} |")
    return "\n".join(out)


def fixed():
    out = ["| id | property | commit in /repo | what failed | regression replay |", "|---|---|---|---|---|"]
    for f in kf["fixed"]:
        what = re.sub(r"^fixed: property=\S+ \S+ ", "", f["line"])
        out.append(f"| {f['id']} | {f['property']} | {f['commit']} | {esc(what)} | {esc(f.get('replay') or '-')} |")
    return "\n".join(out)


def seeded():
    out = ["| seeded change | breaks | title | caught by | how |", "|---|---|---|---|---|"]
    for d in sorted(glob.glob(f"{ROOT}/seeded/*")):
        m = json.load(open(d + "/meta.json"))
        c = m.get("confirmed_by_me", {})
        out.append(f"| seeded/{os.path.basename(d)} | {m['property']} | {esc(m.get('title', ''))} | ./check {m['property']} (detected: {esc(c.get('detected', '?'))}) | {esc(c.get('note', ''))} |")
    return "\n".join(out)


p = f"{ROOT}/DESIGN.md"
s = open(p).read()
for name, fn in (("findings", findings), ("fixed", fixed), ("seeded", seeded)):
    b, e = f"<!-- BEGIN:{name} -->", f"<!-- END:{name} -->"
    if b in s:
        s = s[: s.index(b) + len(b)] + "\n" + fn() + "\n" + s[s.index(e):]
open(p, "w").write(s)
print("tables regenerated")
