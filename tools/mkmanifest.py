#!/usr/bin/env python3
"""Regenerate MANIFEST.json from the table below (keeps it valid at all times)."""
import json
import os

HERE = os.path.dirname(os.path.dirname(os.path.abspath(__file__)))
BASELINE = json.load(open("/root/.vp/BASELINE.json"))["cmd"] if os.path.exists("/root/.vp/BASELINE.json") else "cd /repo && /venv/bin/python -m pytest -ra -q -p no:cacheprovider --timeout=900 --continue-on-collection-errors"

# id -> (category, level text, note, technique, design_ref)
CHECKS = {}
PENDING = {}


def check(pid, category, text, note, technique, ref):
    CHECKS[pid] = dict(category=category, text=text, note=note, technique=technique, ref=ref)


exec(open(os.path.join(HERE, "tools", "manifest_table.py")).read())

props = [json.loads(l)["id"] for l in open(os.path.join(HERE, "properties.jsonl"))]
man = {
    "version": 1,
    "setup_cmd": "/venv/bin/python -c 'import hypothesis, jsonschema, lxml' 2>/dev/null || /venv/bin/pip install --no-index --find-links /opt/veriftools/wheels hypothesis jsonschema lxml; test -d .deps/atheris || /venv/bin/pip install -q --no-index --find-links /opt/veriftools/wheels --no-deps --target .deps atheris || true",
    "hooks": {
        "guard": "PIXEE_CODEMODDER_PYTHON_VERIF",
        "enable": "no hooks in /repo: instrumentation is applied by /verif/cmv at run time at libcst/stdlib seams inside forked children; checks import /repo/src directly (editable install)",
        "baseline_off_cmd": BASELINE,
        "source_commits": [],
        "add_only": True,
    },
    "engines": [
        {
            "name": "cmv",
            "path": "cmv/",
            "serves_properties": sorted(CHECKS),
            "kind_free_text": "Hypothesis-driven campaigns (seeded, sharded over 16 processes, collect mode) around a fork-isolated CLI runner with tree snapshots; reference models / differential / metamorphic oracles per property",
        }
    ],
    "checks": [],
    "notes": "Every check: ./check <ID> quick|thorough, VERIF_SEED honoured, exit 0 held / 1 VIOLATION / 2 harness error (inconclusive). known_findings.json lists genuine defects (recorded or fixed).",
    "not_applicable": [],
}
for pid in props:
    if pid in CHECKS:
        c = CHECKS[pid]
        man["checks"].append(
            {
                "property_id": pid,
                "quick_cmd": f"./check {pid} quick",
                "thorough_cmd": f"./check {pid} thorough",
                "evidence_file": f"evidence/{pid}.json",
                "replay_cmd_template": f"./check {pid} --replay {{path}}",
                "engine": "cmv",
                "level_claimed": {"category": c["category"], "text": c["text"], "design_ref": c["ref"]},
                "level_note": c["note"],
                "technique": c["technique"],
            }
        )
    else:
        man["not_applicable"].append({"property_id": pid, "reason": PENDING.get(pid, "check not built yet in this session (planned in DESIGN.md); not claimed until it exists and is quiet on the unchanged tree")})
with open(os.path.join(HERE, "MANIFEST.json"), "w") as f:
    json.dump(man, f, indent=1)
print("checks:", sorted(CHECKS), "n/a:", [x["property_id"] for x in man["not_applicable"]])
