"""Process bootstrap shared by every check.

* pins PYTHONHASHSEED (re-exec) so registry order and set iteration are reproducible,
* puts /venv/bin on PATH and switches semgrep's network features off,
* puts /repo/src first on sys.path so the working tree is what gets imported.
"""
import os
import sys

VERIF = os.path.dirname(os.path.dirname(os.path.abspath(__file__)))
REPO = os.environ.get("CMV_REPO", "/repo")
PY = "/venv/bin/python"
GUARD = "PIXEE_CODEMODDER_PYTHON_VERIF"


def env_defaults(env=None):
    env = os.environ if env is None else env
    path = env.get("PATH", "")
    if "/venv/bin" not in path.split(":"):
        env["PATH"] = "/venv/bin:" + path
    env["SEMGREP_SEND_METRICS"] = "off"
    env["SEMGREP_ENABLE_VERSION_CHECK"] = "0"
    env.setdefault("PIP_NO_INDEX", "1")
    env[GUARD] = "1"
    # AI clients must stay unconfigured unless a check sets them on purpose
    for k in list(env):
        if k.startswith("CODEMODDER_OPENAI") or k.startswith("CODEMODDER_AZURE"):
            if not env.get("CMV_KEEP_AI_ENV"):
                del env[k]
    return env


def boot():
    env_defaults()
    if os.environ.get("PYTHONHASHSEED") != "0" and not os.environ.get("CMV_NO_REEXEC"):
        os.environ["PYTHONHASHSEED"] = "0"
        os.execv(sys.executable, [sys.executable, "-m", "cmv.main"] + sys.argv[1:])
    import warnings

    warnings.filterwarnings("ignore", category=SyntaxWarning)
    warnings.filterwarnings("ignore", category=DeprecationWarning)
    src = os.path.join(REPO, "src")
    if src in sys.path:
        sys.path.remove(src)
    sys.path.insert(0, src)
    if VERIF not in sys.path:
        sys.path.insert(0, VERIF)
    deps = os.path.join(VERIF, ".deps")
    if os.path.isdir(deps) and deps not in sys.path:
        sys.path.append(deps)


def seed():
    try:
        return int(os.environ.get("VERIF_SEED", "1"))
    except ValueError:
        return 1
