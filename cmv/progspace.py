"""The program space: harvested trigger seeds x validity-preserving transformations.

A *program case* is JSON:
    {"codemod": id, "parts": [{"code": str, "results": doc|None, "ops": [op...]}...], "file_ops": [op...]}
`render(case)` is deterministic and returns the source text, the merged/shifted tool result document
(for SAST codemods) and labels.  Every op is validated with compile(): an op after which the text no
longer parses as well as the seed did is dropped (recorded), never silently kept.

part ops : ["wrap", kind]  kind in def|async|method|if|try|with|for|nested|while
           ["tabs"]         indentation added by wraps uses one TAB per level instead of 4 spaces
           ["comment"]      trailing comments on logical lines
           ["alias"]        `import X` -> `import X as X_al` with uses renamed (token level)
           ["sameline", k]  k-th single-line call V -> (V, V): two sites on one physical line
           ["nest", k]      k-th single-line call f(x, y) -> f(f(x, y), y): a site nested in an argument of the same kind of site
           ["addarg", k, s] k-th single-line call gets one more argument (s = pos|kw|star|comma)
           ["quote", k, s]  k-th plain string literal: delimiters flipped / the other quote character put inside
           ["tuplerhs",k,s] k-th simple assignment gets a bare-tuple or lambda right-hand side
           ["insetlist",k]  k-th statement-level call is wrapped in set([...]) (a use-set-literal site on the same line)
           ["widenimport",k] k-th import statement gets two more (unused) names
           ["parenbreak",k] k-th single-line operator chain is parenthesised and broken before each operator
           ["bodyhead",k,s] k-th function body gets a compound statement (for/if/with/try/def) or a docstring as first statement
           ["nonascii", k]  non-ASCII string statement in front of the k-th single-line call, on the same line
           ["breakattr", k] k-th `a.b(args)` -> `(a` newline `.b(args))`
           ["kwcall", k]    k-th call with keywords gets `_p=_other(<copies of its keywords>)`: same keyword names on an unrelated nested call
           ["dictsplat", k] k-th one-line dict literal gets a leading `**_base_opts` entry
           ["mlimport"]     first one-line `from X import a, b` -> parenthesised form with one name per line
           ["dupimport"]    second binding of the first imported module in the same block, and a use of it
file ops : ["prepend", n, style]  style in comment|blank|docstring
           ["append", n]
           ["scopes"]                 scope-dependent bindings appended (global / nonlocal / function-local import)
           ["eol", "crlf"|"mixed"]
           ["nofinalnl"], ["bom"], ["formfeed"]
"""
from __future__ import annotations

import ast
import copy
import io
import json
import tokenize

from hypothesis import strategies as st

WRAPS = {
    "def": (["def _blk{i}():"], 1),
    "async": (["async def _blk{i}():"], 1),
    "method": (["class _K{i}:", "    def _m(self):"], 2),
    "if": (["if True:"], 1),
    "try": (["try:"], 1),  # closed by a finally clause
    "with": (["with open(__file__) as _fh{i}:"], 1),
    "for": (["for _it{i} in range(1):"], 1),
    "while": (["while True:"], 1),  # closed with a break
    "nested": (["def _out{i}():", "    def _in():"], 2),
}


def parse_level(src: str) -> int:
    """2 = compiles, 1 = parses only (e.g. stray break/continue, return outside function), 0 = neither."""
    try:
        compile(src, "<case>", "exec", dont_inherit=True)
        return 2
    except SyntaxError:
        pass
    except ValueError:
        return 0
    try:
        ast.parse(src)
        return 1
    except (SyntaxError, ValueError):
        return 0


def parse_level_bytes(data: bytes) -> int:
    try:
        compile(data, "<case>", "exec", dont_inherit=True)
        return 2
    except SyntaxError:
        pass
    except ValueError:
        return 0
    try:
        ast.parse(data)
        return 1
    except (SyntaxError, ValueError):
        return 0


# ------------------------------------------------------------------ result-document manipulation


FIXTURE_NAMES = {"code.py"}


def _is_fixture_file(name, newfile):
    base = name.split(":")[-1]
    return base in FIXTURE_NAMES or base.endswith("/code.py") or name == newfile or _RENAMED.get(base, False)


_RENAMED = {}


def shift_doc(doc, dline, dcol, newfile):
    _RENAMED[newfile] = True
    """Shift every location of a tool result document; rename the file it refers to."""
    doc = copy.deepcopy(doc)

    def walk(o):
        if isinstance(o, dict):
            if "textRange" in o and isinstance(o["textRange"], dict):  # sonar
                tr = o["textRange"]
                for k in ("startLine", "endLine"):
                    if k in tr:
                        tr[k] += dline
                for k in ("startOffset", "endOffset"):
                    if k in tr:
                        tr[k] += dcol
            if "region" in o and isinstance(o["region"], dict):  # sarif
                r = o["region"]
                for k in ("startLine", "endLine"):
                    if k in r:
                        r[k] += dline
                for k in ("startColumn", "endColumn"):
                    if k in r:
                        r[k] += dcol
            # only entries that refer to the fixture's own file are renamed: decoys for other files keep theirs
            if "file_path" in o and "line" in o:  # defectdojo
                o["line"] += dline
                if _is_fixture_file(o["file_path"], newfile):
                    o["file_path"] = newfile
            if "component" in o and isinstance(o["component"], str) and _is_fixture_file(o["component"], newfile):
                o["component"] = newfile
            if "uri" in o and isinstance(o["uri"], str) and ("artifactLocation" not in o) and _is_fixture_file(o["uri"], newfile):
                o["uri"] = newfile
            for v in o.values():
                walk(v)
        elif isinstance(o, list):
            for v in o:
                walk(v)

    walk(doc)
    return doc


def doc_format(doc):
    if "runs" in doc:
        return "sarif"
    if "results" in doc and isinstance(doc["results"], list):
        return "defectdojo"
    return "sonar"


def merge_docs(docs):
    docs = [d for d in docs if d]
    if not docs:
        return None
    fmt = doc_format(docs[0])
    if fmt == "sonar":
        out = {"issues": [], "hotspots": []}
        for d in docs:
            out["issues"] += d.get("issues") or []
            out["hotspots"] += d.get("hotspots") or []
        if not out["hotspots"]:
            del out["hotspots"]
        return out
    if fmt == "defectdojo":
        return {"count": sum(len(d["results"]) for d in docs), "results": [r for d in docs for r in d["results"]]}
    run = {"tool": {"driver": {"name": "Semgrep OSS", "semanticVersion": "1.90.0", "rules": []}}, "results": []}
    for d in docs:
        for r in d["runs"]:
            run["results"] += r.get("results", [])
    return {"version": "2.1.0", "$schema": "https://docs.oasis-open.org/sarif/sarif/v2.1.0/os/schemas/sarif-schema-2.1.0.json", "runs": [run]}


def split_doc(doc, n=2):
    """Spread the findings of a Sonar / DefectDojo document over n documents (a paginated export): entry k goes to
    document k % n.  SARIF is returned whole (two SARIF files of one tool are rejected by the CLI)."""
    fmt = doc_format(doc)
    if fmt == "sarif":
        return [doc]
    outs = []
    for i in range(n):
        d = copy.deepcopy(doc)
        if fmt == "sonar":
            for k in ("issues", "hotspots"):
                if k in d:
                    d[k] = [e for j, e in enumerate(d[k]) if j % n == i]
        else:
            d["results"] = [e for j, e in enumerate(d["results"]) if j % n == i]
            d["count"] = len(d["results"])
        outs.append(d)
    return outs


def doc_findings(doc):
    """Flat list of (start_line, end_line) of the findings in a document (any format)."""
    out = []

    def walk(o, top):
        if isinstance(o, dict):
            if "textRange" in o and top:
                out.append((o["textRange"]["startLine"], o["textRange"].get("endLine", o["textRange"]["startLine"])))
            for k, v in o.items():
                if k in ("flows", "codeFlows", "relatedLocations"):
                    continue
                if k == "region" and isinstance(v, dict) and "startLine" in v:
                    out.append((v["startLine"], v.get("endLine", v["startLine"])))
                walk(v, top and k in ("issues", "hotspots", "results", "runs", "locations", "physicalLocation"))
            if "file_path" in o and "line" in o:
                out.append((o["line"], o["line"]))
        elif isinstance(o, list):
            for v in o:
                walk(v, top)

    walk(doc, True)
    return out


# ------------------------------------------------------------------ text transformations


def _indent(code: str, unit: str) -> str:
    return "".join((unit + l if l.strip() else l) for l in code.splitlines(keepends=True))


def op_wrap(code, kind, i, unit):
    headers, levels = WRAPS[kind]
    body = code
    for _ in range(levels):
        body = _indent(body, unit)
    hdr = ""
    for lvl, h in enumerate(headers):
        h = h.format(i=i)
        # headers are written with 4-space nesting: convert to the unit
        stripped = h.lstrip(" ")
        depth = (len(h) - len(stripped)) // 4
        hdr += unit * depth + stripped + "\n"
    tail = ""
    if kind == "try":
        tail = "finally:\n" + unit + "pass\n"
    if kind == "while":
        body = body + unit + "break\n"
    return hdr + body + tail, len(headers), levels


def op_comment(code):
    """Append a trailing comment to logical lines that end a simple statement (token level)."""
    try:
        toks = list(tokenize.generate_tokens(io.StringIO(code).readline))
    except (tokenize.TokenError, IndentationError, SyntaxError):
        return code
    lines = code.splitlines(keepends=True)
    marks = set()
    for k, t in enumerate(toks):
        if t.type == tokenize.NEWLINE and k > 0 and toks[k - 1].type != tokenize.COMMENT:
            marks.add(t.start)  # (row, col) where the NEWLINE token starts
    for row, col in sorted(marks, reverse=True):
        l = lines[row - 1]
        lines[row - 1] = l[:col] + "  # note" + l[col:]
    return "".join(lines)


def op_alias(code):
    """`import X` (plain, single, unaliased, top of the seed) -> `import X as X_al`, uses renamed."""
    try:
        tree = ast.parse(code)
        toks = list(tokenize.generate_tokens(io.StringIO(code).readline))
    except (SyntaxError, tokenize.TokenError, IndentationError):
        return code
    target = None
    for st_ in tree.body:
        if isinstance(st_, ast.Import) and len(st_.names) == 1 and st_.names[0].asname is None and "." not in st_.names[0].name:
            target = st_
            break
    if target is None:
        return code
    name = target.names[0].name
    alias = name + "_al"
    # bail out if the name is also bound otherwise (from-import of same name, assignment, def ...)
    for n in ast.walk(tree):
        if isinstance(n, ast.alias) and n is not target.names[0] and (n.asname or n.name.split(".")[0]) == name:
            return code
        if isinstance(n, ast.Name) and n.id == name and isinstance(n.ctx, (ast.Store, ast.Del)):
            return code
        if isinstance(n, (ast.FunctionDef, ast.ClassDef, ast.AsyncFunctionDef)) and n.name == name:
            return code
        if isinstance(n, ast.arg) and n.arg == name:
            return code
        if isinstance(n, ast.alias) and n.name == name and n is not target.names[0]:
            return code
    lines = code.splitlines(keepends=True)
    edits = []
    prev = None
    for t in toks:
        if t.type == tokenize.NAME and t.string == name:
            in_import_stmt = t.start[0] == target.lineno
            if in_import_stmt:
                edits.append((t.start, t.end, f"{name} as {alias}"))
            elif prev is None or prev.string != ".":
                # keyword argument names `f(random=1)` are NAME tokens too: skip when followed by '=' inside a call is hard to
                # know at token level; the compile + binding check after the op catches breakage
                edits.append((t.start, t.end, alias))
        if t.type not in (tokenize.NL, tokenize.COMMENT):
            prev = t
    for (r, c0), (_, c1), new in sorted(edits, reverse=True):
        l = lines[r - 1]
        lines[r - 1] = l[:c0] + new + l[c1:]
    return "".join(lines)


def op_dupimport(code):
    """Bind the module of the first plain top-level `import X[.Y]` a second time under an alias, in the
    same import block, and use the alias: `import X` -> `import X` + `import X as X_dup` ... `_use_dup = X_dup`."""
    try:
        tree = ast.parse(code)
    except SyntaxError:
        return code
    for st_ in tree.body:
        if isinstance(st_, ast.Import) and len(st_.names) == 1 and st_.names[0].asname is None:
            name = st_.names[0].name
            alias = name.replace(".", "_") + "_dup"
            lines = code.splitlines(keepends=True)
            end = st_.end_lineno
            lines.insert(end, f"import {name} as {alias}\n")
            return "".join(lines) + f"_use_dup = {alias}\n"
    return code


def _single_line_calls(code):
    """(lineno, col, end_col, node) of every single-line Call in source order."""
    try:
        tree = ast.parse(code)
    except SyntaxError:
        return []
    out = []
    for n in ast.walk(tree):
        if isinstance(n, ast.Call) and n.lineno == n.end_lineno:
            out.append((n.lineno, n.col_offset, n.end_col_offset, n))
    return sorted(out, key=lambda t: (t[0], t[1], -t[2]))


def _byte_slice(line, a, b):
    raw = line.encode("utf-8")
    return raw[:a].decode("utf-8"), raw[a:b].decode("utf-8"), raw[b:].decode("utf-8")


def op_sameline(code, k):
    """Put a second copy of the k-th single-line call on the same line: `V` -> `(V, V)`."""
    calls = _single_line_calls(code)
    if not calls:
        return code
    ln, a, b, _ = calls[k % len(calls)]
    lines = code.splitlines(keepends=True)
    pre, v, post = _byte_slice(lines[ln - 1], a, b)
    lines[ln - 1] = f"{pre}({v}, {v}){post}"
    return "".join(lines)


def op_nest(code, k):
    """Nest the k-th single-line call inside a copy of itself: `f(x, y)` -> `f(f(x, y), y)`, `f()` -> `f(f())`."""
    calls = _single_line_calls(code)
    if not calls:
        return code
    ln, a, b, node = calls[k % len(calls)]
    lines = code.splitlines(keepends=True)
    pre, v, post = _byte_slice(lines[ln - 1], a, b)
    pos = [x for x in node.args if not isinstance(x, ast.Starred)]
    if pos and pos[0].lineno == ln and pos[0].end_lineno == ln:
        p0 = pos[0]
        _, head, _ = _byte_slice(lines[ln - 1], a, p0.col_offset)
        _, tail, _ = _byte_slice(lines[ln - 1], p0.end_col_offset, b)
        new = head + v + tail
    elif not node.args and not node.keywords:
        new = v[:-1] + v + ")"
    else:
        return code
    lines[ln - 1] = pre + new + post
    return "".join(lines)


def op_addarg(code, k, style):
    """Give the k-th single-line call one more argument: positional, keyword, *star or just a trailing comma."""
    calls = _single_line_calls(code)
    if not calls:
        return code
    ln, a, b, node = calls[k % len(calls)]
    lines = code.splitlines(keepends=True)
    pre, v, post = _byte_slice(lines[ln - 1], a, b)
    if not v.endswith(")"):
        return code
    has_args = bool(node.args or node.keywords)
    inner = v[:-1].rstrip()
    if inner.endswith(","):
        return code
    extra = {"pos": "_extra", "kw": "key=_extra", "star": "*_extra", "comma": ""}[style]
    if style == "pos" and node.keywords:
        extra = "key2=_extra"
    if style == "comma":
        if not has_args:
            return code
        new = inner + ",)"
    else:
        new = inner + (", " if has_args else "") + extra + ")"
    lines[ln - 1] = pre + new + post
    return "".join(lines)


def op_quote(code, k, style):
    """k-th plain single-line string literal: flip its delimiters, or put the *other* quote character inside."""
    try:
        toks = [t for t in tokenize.generate_tokens(io.StringIO(code).readline) if t.type == tokenize.STRING]
    except (tokenize.TokenError, IndentationError, SyntaxError):
        return code
    toks = [t for t in toks if t.start[0] == t.end[0] and t.string[0] in "'\"" and not t.string.startswith(("\'\'\'", '"""')) and len(t.string) >= 2]
    if not toks:
        return code
    t = toks[k % len(toks)]
    q = t.string[0]
    other = '"' if q == "'" else "'"
    body = t.string[1:-1]
    lines = code.splitlines(keepends=True)
    if style in ("flipinject", "mix"):
        if other in body or "\\" in body:
            return code
        if style == "flipinject":  # "abc" -> 'a"bc'
            mid = len(body) // 2
            new = other + body[:mid] + q + body[mid:] + other
        else:  # "abc" + x + "def"  ->  'abc' + x + "d'ef": mixed quoting, the first literal's delimiter occurs in the next one
            new = other + body + other
            nxt = toks[(k % len(toks)) + 1] if (k % len(toks)) + 1 < len(toks) else None
            if nxt is None or nxt.string[0] != q or nxt.start[0] == t.start[0] and nxt.start[1] < t.end[1] or "\\" in nxt.string:
                return code
            nb = nxt.string[1:-1]
            m2 = len(nb) // 2
            l2 = lines[nxt.start[0] - 1]
            lines[nxt.start[0] - 1] = l2[: nxt.start[1]] + q + nb[:m2] + other + nb[m2:] + q + l2[nxt.end[1]:]
    elif style == "flip":
        if other in body or "\\" in body:
            return code
        new = other + body + other
    else:  # inject the other quote character
        mid = len(body) // 2
        if "\\" in body[max(0, mid - 1):mid + 1]:
            return code
        new = q + body[:mid] + other + body[mid:] + q
    l = lines[t.start[0] - 1]
    lines[t.start[0] - 1] = l[: t.start[1]] + new + l[t.end[1]:]
    return "".join(lines)


def op_tuplerhs(code, k, style):
    """k-th single-line simple assignment `x = V` -> `x = V, 1` (bare tuple) or `x = lambda: V`."""
    try:
        tree = ast.parse(code)
    except SyntaxError:
        return code
    cands = [n for n in ast.walk(tree) if isinstance(n, ast.Assign) and len(n.targets) == 1 and isinstance(n.targets[0], ast.Name)
             and n.value.lineno == n.value.end_lineno == n.lineno and not isinstance(n.value, (ast.Tuple, ast.Lambda))]
    if not cands:
        return code
    cands.sort(key=lambda n: (n.lineno, n.col_offset))
    n = cands[k % len(cands)]
    lines = code.splitlines(keepends=True)
    pre, v, post = _byte_slice(lines[n.lineno - 1], n.value.col_offset, n.value.end_col_offset)
    new = f"{v}, 1" if style == "tuple" else f"lambda: {v}"
    lines[n.lineno - 1] = pre + new + post
    return "".join(lines)


def op_insetlist(code, k):
    """k-th single-line statement `x = CALL` / `CALL` gets its call wrapped: `x = set([CALL])`.  The line is then a
    site of use-set-literal as well as of whatever rewrites CALL: two codemods of one run edit the same line."""
    try:
        tree = ast.parse(code)
    except SyntaxError:
        return code
    cands = []
    for n in ast.walk(tree):
        v = None
        if isinstance(n, ast.Assign) and len(n.targets) == 1 and isinstance(n.targets[0], ast.Name):
            v = n.value
        elif isinstance(n, ast.Expr):
            v = n.value
        if isinstance(v, ast.Call) and v.lineno == v.end_lineno == n.lineno and not (isinstance(v.func, ast.Name) and v.func.id == "set"):
            cands.append(v)
    if not cands:
        return code
    cands.sort(key=lambda n: (n.lineno, n.col_offset))
    v = cands[k % len(cands)]
    lines = code.splitlines(keepends=True)
    pre, txt, post = _byte_slice(lines[v.lineno - 1], v.col_offset, v.end_col_offset)
    lines[v.lineno - 1] = pre + "set([" + txt + "])" + post
    return "".join(lines)


def op_bodyhead(code, k, style):
    """The body of the k-th function (multi-line body) gets a compound statement / docstring as its first statement."""
    try:
        tree = ast.parse(code)
    except SyntaxError:
        return code
    fns = [n for n in ast.walk(tree) if isinstance(n, (ast.FunctionDef, ast.AsyncFunctionDef)) and n.body and n.body[0].lineno > n.lineno
           and not any(isinstance(d, ast.Name) and d.id == "overload" for d in n.decorator_list)]
    if not fns:
        return code
    fns.sort(key=lambda n: (n.lineno, n.col_offset))
    fn = fns[k % len(fns)]
    first = fn.body[0]
    lines = code.splitlines(keepends=True)
    raw = lines[first.lineno - 1]
    indent = raw[: len(raw) - len(raw.lstrip(" \t"))]
    unit = "\t" if indent.endswith("\t") else "    "
    head = {
        "for": f"{indent}for _cmv_i in ():\n{indent}{unit}pass\n",
        "if": f"{indent}if __debug__:\n{indent}{unit}pass\n",
        "with": f"{indent}with open(__file__) as _cmv_f:\n{indent}{unit}pass\n",
        "try": f"{indent}try:\n{indent}{unit}pass\n{indent}finally:\n{indent}{unit}pass\n",
        "def": f"{indent}def _cmv_inner():\n{indent}{unit}return None\n",
        "docstring": f'{indent}"""doc."""\n',
    }[style]
    if style == "docstring" and isinstance(first, ast.Expr) and isinstance(first.value, ast.Constant) and isinstance(first.value.value, str):
        return code
    # a decorator / multi-line first statement starts at first.lineno (decorated inner defs start at the decorator)
    start = min([first.lineno] + [d.lineno for d in getattr(first, "decorator_list", [])])
    lines.insert(start - 1, head)
    return "".join(lines)


def op_widenimport(code, k):
    """k-th single-line import statement gets two more (unused) names: `import a` -> `import a, _cmv_m1, _cmv_m2 as
    _cmv_al`, `from m import a` -> `from m import a, _cmv_n1, _cmv_n2`."""
    try:
        tree = ast.parse(code)
    except SyntaxError:
        return code
    imps = [n for n in ast.walk(tree) if isinstance(n, (ast.Import, ast.ImportFrom)) and n.lineno == n.end_lineno
            and not (isinstance(n, ast.ImportFrom) and (n.module == "__future__" or any(a.name == "*" for a in n.names)))]
    if not imps:
        return code
    imps.sort(key=lambda n: (n.lineno, n.col_offset))
    n = imps[k % len(imps)]
    lines = code.splitlines(keepends=True)
    pre, txt, post = _byte_slice(lines[n.lineno - 1], n.col_offset, n.end_col_offset)
    if txt.rstrip().endswith(")") or ";" in post:
        return code
    extra = ", _cmv_m1, _cmv_m2 as _cmv_al" if isinstance(n, ast.Import) else ", _cmv_n1, _cmv_n2"
    lines[n.lineno - 1] = pre + txt + extra + post
    return "".join(lines)


def op_parenbreak(code, k):
    """k-th single-line binary-operator chain used as a whole right-hand side / argument / return value is put in
    parentheses and broken before each top-level operator:  `x = a + b + c`  ->  `x = (a` / `    + b` / `    + c)`."""
    try:
        tree = ast.parse(code)
    except SyntaxError:
        return code
    cands = []
    for n in ast.walk(tree):
        vals = []
        if isinstance(n, (ast.Assign, ast.Return, ast.Expr)) and n.value is not None:
            vals = [n.value]
        elif isinstance(n, ast.Call):
            vals = list(n.args) + [kw.value for kw in n.keywords]
        for v in vals:
            if isinstance(v, ast.BinOp) and v.lineno == v.end_lineno:
                cands.append(v)
    if not cands:
        return code
    cands.sort(key=lambda n: (n.lineno, n.col_offset))
    v = cands[k % len(cands)]
    # operands of the left-associative chain with the same precedence class at top level
    chain = []
    node = v
    while isinstance(node, ast.BinOp):
        chain.append(node.right)
        node = node.left
    chain.append(node)
    chain.reverse()
    lines = code.splitlines(keepends=True)
    line = lines[v.lineno - 1]
    pre, txt, post = _byte_slice(line, v.col_offset, v.end_col_offset)
    raw = line.encode("utf-8")
    indent = line[: len(line) - len(line.lstrip(" \t"))] + "    "
    pieces = []
    for i, operand in enumerate(chain):
        a = chain[i - 1].end_col_offset if i else v.col_offset
        # text from the end of the previous operand (operator included) to the end of this one; parentheses around an
        # operand lie between the two offsets and travel with the operator text
        end = operand.end_col_offset if i < len(chain) - 1 else v.end_col_offset
        seg = raw[a:end].decode("utf-8")
        # closing parentheses of a parenthesised left operand belong to the previous piece
        if i:
            j = 0
            while j < len(seg) and seg[j] in ") ":
                j += 1
            closing = seg[:j].replace(" ", "")
            if closing:
                pieces[-1] += closing
            seg = seg[j:]
        pieces.append(seg.strip())
    new = "(" + pieces[0] + "".join("\n" + indent + p for p in pieces[1:]) + ")"
    lines[v.lineno - 1] = pre + new + post
    return "".join(lines)


def op_kwcall(code, k):
    """k-th single-line call that has keyword arguments gets one more keyword whose value is an unrelated call
    carrying copies of the same keywords: `f(a, verify=False)` -> `f(a, verify=False, _p=_other(verify=False))`."""
    calls = [c for c in _single_line_calls(code) if any(kw.arg for kw in c[3].keywords)]
    if not calls:
        return code
    ln, a, b, node = calls[k % len(calls)]
    lines = code.splitlines(keepends=True)
    line = lines[ln - 1]
    pre, v, post = _byte_slice(line, a, b)
    kws = []
    for kw in node.keywords:
        if kw.arg and kw.value.lineno == ln == kw.value.end_lineno:
            _, txt, _ = _byte_slice(line, kw.value.col_offset, kw.value.end_col_offset)
            kws.append(f"{kw.arg}={txt}")
    if not kws or not v.endswith(")") or v[:-1].rstrip().endswith(","):
        return code
    if any(kw.arg is None for kw in node.keywords):  # a **mapping must stay last
        return code
    lines[ln - 1] = pre + v[:-1] + ", _p=_other(" + ", ".join(kws) + "))" + post
    return "".join(lines)


def op_dictsplat(code, k):
    """k-th single-line non-empty dict literal gets a leading `**_base_opts` entry."""
    try:
        tree = ast.parse(code)
    except SyntaxError:
        return code
    dicts = sorted([n for n in ast.walk(tree) if isinstance(n, ast.Dict) and n.keys and n.lineno == n.end_lineno], key=lambda n: (n.lineno, n.col_offset))
    if not dicts:
        return code
    n = dicts[k % len(dicts)]
    lines = code.splitlines(keepends=True)
    pre, v, post = _byte_slice(lines[n.lineno - 1], n.col_offset, n.end_col_offset)
    if not v.startswith("{"):
        return code
    lines[n.lineno - 1] = pre + "{**_base_opts, " + v[1:] + post
    return "".join(lines)


def op_nonascii(code, k):
    """Put a statement with non-ASCII text in front of the k-th single-line call, on the same physical line:
    `x = f(a)` -> `_na = "é日本"; x = f(a)` (byte and character columns of everything after it differ)."""
    calls = _single_line_calls(code)
    if not calls:
        return code
    ln = calls[k % len(calls)][0]
    lines = code.splitlines(keepends=True)
    line = lines[ln - 1]
    stripped = line.lstrip()
    if stripped.startswith(("def ", "class ", "if ", "elif ", "else", "for ", "while ", "with ", "try", "except", "finally", "@", "async ", "return ", "import ", "from ")) and not stripped.startswith("return "):
        return code
    indent = line[: len(line) - len(stripped)]
    lines[ln - 1] = indent + '_na = "é日本"; ' + stripped
    return "".join(lines)


def op_breakattr(code, k):
    """k-th single-line call through an attribute `a.b(args)` -> `(a\n    .b(args))`: legal layout in parentheses."""
    calls = [c for c in _single_line_calls(code) if isinstance(c[3].func, ast.Attribute) and c[3].func.value.end_lineno == c[0]]
    if not calls:
        return code
    ln, a, b, node = calls[k % len(calls)]
    lines = code.splitlines(keepends=True)
    line = lines[ln - 1]
    dot = node.func.value.end_col_offset  # position right after the receiver, i.e. of the '.'
    pre, recv, rest = _byte_slice(line, a, dot)
    _, tail, post = _byte_slice(line, dot, b)
    if not tail.startswith("."):
        return code
    indent = line[: len(line) - len(line.lstrip())]
    lines[ln - 1] = f"{pre}({recv}\n{indent}    {tail}){post}"
    return "".join(lines)


def op_multiline_import(code):
    """First one-line `from X import a, b[, ...]` (top level of the seed) -> parenthesised, one name per line."""
    try:
        tree = ast.parse(code)
    except SyntaxError:
        return code
    for st_ in tree.body:
        if isinstance(st_, ast.ImportFrom) and st_.lineno == st_.end_lineno and len(st_.names) >= 2 and st_.names[0].name != "*" and st_.module != "__future__":
            lines = code.splitlines(keepends=True)
            line = lines[st_.lineno - 1]
            if "(" in line or "#" in line or ";" in line:
                continue
            indent = line[: len(line) - len(line.lstrip())]
            names = ["%s as %s" % (a.name, a.asname) if a.asname else a.name for a in st_.names]
            mod = "." * st_.level + (st_.module or "")
            new = f"{indent}from {mod} import (\n" + "".join(f"{indent}    {n},\n" for n in names) + f"{indent})\n"
            lines[st_.lineno - 1] = new
            return "".join(lines)
    return code


def render_part(part, i):
    """-> (text, results_doc_shifted_within_part, applied_ops, dropped_ops)"""
    code = part["code"]
    if not code.endswith("\n"):
        code += "\n"
    base_level = parse_level(code)
    doc = part.get("results")
    unit = "\t" if ["tabs"] in part["ops"] else "    "
    applied, dropped = [], []
    dline = dcol = 0
    for op in part["ops"]:
        if op[0] == "tabs":
            continue
        if op[0] == "wrap":
            new, dl, lv = op_wrap(code, op[1], i, unit)
            dc = lv * len(unit)
        elif op[0] == "comment":
            new, dl, dc = op_comment(code), 0, 0
        elif op[0] == "alias":
            new, dl, dc = op_alias(code), 0, 0
            if doc is not None:  # columns would shift unpredictably
                new = code
        elif op[0] in ("sameline", "nest"):
            new, dl, dc = (op_sameline if op[0] == "sameline" else op_nest)(code, op[1]), 0, 0
            if doc is not None:  # columns of the reported locations would no longer be known
                new = code
        elif op[0] in ("addarg", "quote", "tuplerhs", "bodyhead"):
            fn = {"addarg": op_addarg, "quote": op_quote, "tuplerhs": op_tuplerhs, "bodyhead": op_bodyhead}[op[0]]
            new, dl, dc = fn(code, op[1], op[2]), 0, 0
            if doc is not None:
                new = code
        elif op[0] in ("nonascii", "breakattr", "kwcall", "dictsplat", "insetlist", "widenimport", "parenbreak"):
            new, dl, dc = {"nonascii": op_nonascii, "breakattr": op_breakattr, "kwcall": op_kwcall, "dictsplat": op_dictsplat, "insetlist": op_insetlist, "widenimport": op_widenimport, "parenbreak": op_parenbreak}[op[0]](code, op[1]), 0, 0
            if doc is not None:
                new = code
        elif op[0] == "mlimport":
            new, dl, dc = op_multiline_import(code), 0, 0
            if doc is not None:
                new = code
        elif op[0] == "dupimport":
            new, dl, dc = op_dupimport(code), 0, 0
            if doc is not None:  # lines below the import would shift
                new = code
        else:
            continue
        if new != code and parse_level(new) >= base_level and parse_level(new) > 0:
            code = new
            dline += dl
            dcol += dc
            applied.append(op)
        else:
            dropped.append(op)
    if unit == "\t" and any(o[0] == "wrap" for o in applied):
        applied.append(["tabs"])
    return code, dline, dcol, applied, dropped


def render(case, filename="code.py"):
    """-> dict(text=bytes, results=doc|None, labels=[...], nparts, dropped=[...], level=parse level of the text)"""
    parts_txt = []
    docs = []
    labels = []
    dropped_all = []
    line_base = 0
    part_ranges = []  # [part index, first line, last line] in the final text (1-based, after prepended lines)
    multi = len(case["parts"]) > 1
    for i, part in enumerate(case["parts"]):
        p = dict(part)
        ops = list(p["ops"])
        if multi and not any(o[0] == "wrap" and o[1] in ("def", "async", "method", "nested") for o in ops):
            ops = [["wrap", "def"]] + ops  # each copy gets its own scope
        p["ops"] = ops
        code, dline, dcol, applied, dropped = render_part(p, i)
        if multi and not any(o[0] == "wrap" for o in applied):
            continue  # cannot be scoped: leave this copy out
        if part.get("results") is not None:
            docs.append(shift_doc(part["results"], line_base + dline, dcol, filename))
        parts_txt.append(code)
        part_ranges.append([i, line_base + 1, line_base + code.count("\n")])
        line_base += code.count("\n")
        labels += ["op:" + (o[0] + ("=" + str(o[1]) if len(o) > 1 and o[0] == "wrap" else "")) for o in applied]
        dropped_all += dropped
    if not parts_txt:
        part = case["parts"][0]
        parts_txt = [part["code"] if part["code"].endswith("\n") else part["code"] + "\n"]
        part_ranges = [[0, 1, parts_txt[0].count("\n")]]
        docs = [shift_doc(part["results"], 0, 0, filename)] if part.get("results") is not None else []
    text = "".join(parts_txt)
    base_level = parse_level(text)
    pre_lines = 0
    for op in case.get("file_ops", []):
        if op[0] == "prepend":
            n, style = op[1], op[2]
            if style == "comment":
                pre = "".join(f"# header line {k}\n" for k in range(n))
            elif style == "blank":
                pre = "\n" * n
            else:
                pre = '"""module docstring\n' + "more\n" * max(0, n - 2) + '"""\n'
                n = pre.count("\n")
            if "from __future__" in text and style == "docstring":
                pass
            new = pre + text
            if parse_level(new) >= base_level and not ("from __future__" in text and style != "comment" and style != "blank"):
                text = new
                pre_lines += n
                labels.append("fop:prepend-" + style)
        elif op[0] == "append":
            text = text + "".join(f"_tail{k} = {k}\n" for k in range(op[1]))
            labels.append("fop:append")
        elif op[0] == "scopes":
            # bindings that are only reachable through scope rules: a module global assigned inside a function
            # (`global`), a closure cell rebound through `nonlocal`, a function-local import read by an inner function
            new = text + SCOPES_TAIL
            if parse_level(new) >= base_level:
                text = new
                labels.append("fop:scopes")
    docs = [shift_doc(d, pre_lines, 0, filename) for d in docs]
    part_ranges = [[i, a + pre_lines, b + pre_lines] for i, a, b in part_ranges]
    # byte-level ops last
    for op in case.get("file_ops", []):
        if op[0] == "formfeed":
            new = text + "\x0c\n_after_ff = 1\n"
            if parse_level(new) >= base_level:
                text = new
                labels.append("fop:formfeed")
    data = text
    for op in case.get("file_ops", []):
        if op[0] == "eol":
            if op[1] == "crlf":
                data = data.replace("\n", "\r\n")
            else:
                ls = data.split("\n")
                data = "".join(l + ("\r\n" if k % 2 else "\n") for k, l in enumerate(ls[:-1])) + ls[-1]
            labels.append("fop:eol-" + op[1])
        elif op[0] == "nofinalnl":
            if data.endswith("\r\n"):
                data = data[:-2]
            elif data.endswith("\n"):
                data = data[:-1]
            labels.append("fop:nofinalnl")
    raw = data.encode("utf-8")
    for op in case.get("file_ops", []):
        if op[0] == "bom":
            raw = b"\xef\xbb\xbf" + raw
            labels.append("fop:bom")
    if parse_level_bytes(raw) < base_level:
        # a byte-level op broke it (should not happen): fall back to plain text
        raw = text.encode("utf-8")
        labels = [l for l in labels if not l.startswith("fop:eol") and l not in ("fop:bom", "fop:nofinalnl")]
    return {
        "data": raw,
        "results": merge_docs(docs),
        "labels": labels + [f"parts={len(parts_txt)}"],
        "nparts": len(parts_txt),
        "part_ranges": part_ranges,
        "docs": docs,
        "dropped": dropped_all,
        "level": parse_level_bytes(raw),
    }


# ------------------------------------------------------------------ Hypothesis strategies


SCOPES_TAIL = """def _cmv_set(v):
    global _cmv_state
    _cmv_state = v
def _cmv_get():
    return _cmv_state
def _cmv_counter():
    count = 0
    def bump():
        nonlocal count
        count = count + 1
        return count
    return bump
def _cmv_late():
    import json as _cmv_json
    def use():
        return _cmv_json.dumps({})
    return use
"""


def part_ops():
    return st.lists(
        st.one_of(
            st.tuples(st.just("wrap"), st.sampled_from(sorted(WRAPS))).map(list),
            st.just(["tabs"]),
            st.just(["comment"]),
            st.just(["alias"]),
            st.just(["dupimport"]),
            st.just(["mlimport"]),
            st.tuples(st.just("nonascii"), st.integers(0, 5)).map(list),
            st.tuples(st.just("breakattr"), st.integers(0, 5)).map(list),
            st.tuples(st.just("kwcall"), st.integers(0, 3)).map(list),
            st.tuples(st.just("dictsplat"), st.integers(0, 3)).map(list),
            st.tuples(st.just("insetlist"), st.integers(0, 3)).map(list),
            st.tuples(st.just("widenimport"), st.integers(0, 3)).map(list),
            st.tuples(st.just("parenbreak"), st.integers(0, 3)).map(list),
            st.tuples(st.just("bodyhead"), st.integers(0, 3), st.sampled_from(["for", "if", "with", "try", "def", "docstring"])).map(list),
            st.tuples(st.just("sameline"), st.integers(0, 5)).map(list),
            st.tuples(st.just("nest"), st.integers(0, 5)).map(list),
            st.tuples(st.just("addarg"), st.integers(0, 5), st.sampled_from(["pos", "kw", "star", "comma"])).map(list),
            st.tuples(st.just("quote"), st.integers(0, 5), st.sampled_from(["flip", "inject", "flipinject", "mix"])).map(list),
            st.tuples(st.just("tuplerhs"), st.integers(0, 5), st.sampled_from(["tuple", "lambda"])).map(list),
        ),
        max_size=3,
        unique_by=lambda o: o[0] if o[0] != "wrap" else None or repr(o),
    )


def file_ops():
    return st.lists(
        st.one_of(
            st.tuples(st.just("prepend"), st.integers(1, 4), st.sampled_from(["comment", "blank", "docstring"])).map(list),
            st.tuples(st.just("append"), st.integers(1, 2)).map(list),
            st.tuples(st.just("eol"), st.sampled_from(["crlf", "crlf", "mixed"])).map(list),
            st.just(["nofinalnl"]),
            st.just(["bom"]),
            st.just(["formfeed"]),
            st.just(["scopes"]),
        ),
        max_size=3,
        unique_by=lambda o: o[0],
    )


@st.composite
def program_case(draw, codemod_id, seeds, sast_seeds=None, max_parts=3):
    """seeds: list[str]; sast_seeds: list[{"code","results"}] (SAST codemods use these)."""
    nparts = draw(st.sampled_from([1, 1, 1, 2, 3][: 3 + max(0, max_parts - 1)]))
    parts = []
    for _ in range(nparts):
        if sast_seeds:
            s = draw(st.sampled_from(sast_seeds))
            parts.append({"code": s["code"], "results": s["results"], "ops": draw(part_ops())})
        else:
            parts.append({"code": draw(st.sampled_from(seeds)), "results": None, "ops": draw(part_ops())})
    return {"codemod": codemod_id, "parts": parts, "file_ops": draw(file_ops())}


def case_key(case):
    return json.dumps(case, sort_keys=True)
