"""The program space: harvested trigger seeds x validity-preserving transformations.

A *program case* is JSON:
    {"codemod": id, "parts": [{"code": str, "results": doc|None, "ops": [op...]}...], "file_ops": [op...]}
`render(case)` is deterministic and returns the source text, the merged/shifted tool result document
(for SAST codemods) and labels.  Every op is validated with compile(): an op after which the text no
longer parses as well as the seed did is dropped (recorded), never silently kept.

part ops : ["wrap", kind]  kind in def|async|method|if|try|with|for|nested|while
           ["tabs"]         indentation added by wraps uses one TAB per level instead of 4 spaces
           ["comment"]      trailing comments on logical lines
           ["alias"]        `import X` -> `import X as X_al` with uses renamed (token level)
file ops : ["prepend", n, style]  style in comment|blank|docstring
           ["append", n]
           ["eol", "crlf"|"mixed"]
           ["nofinalnl"], ["bom"], ["formfeed"]
"""
from __future__ import annotations

import ast
import copy
import io
import json
import tokenize

from hypothesis import strategies as st

WRAPS = {
    "def": (["def _blk{i}():"], 1),
    "async": (["async def _blk{i}():"], 1),
    "method": (["class _K{i}:", "    def _m(self):"], 2),
    "if": (["if True:"], 1),
    "try": (["try:"], 1),  # closed by a finally clause
    "with": (["with open(__file__) as _fh{i}:"], 1),
    "for": (["for _it{i} in range(1):"], 1),
    "while": (["while True:"], 1),  # closed with a break
    "nested": (["def _out{i}():", "    def _in():"], 2),
}


def parse_level(src: str) -> int:
    """2 = compiles, 1 = parses only (e.g. stray break/continue, return outside function), 0 = neither."""
    try:
        compile(src, "<case>", "exec", dont_inherit=True)
        return 2
    except SyntaxError:
        pass
    except ValueError:
        return 0
    try:
        ast.parse(src)
        return 1
    except (SyntaxError, ValueError):
        return 0


def parse_level_bytes(data: bytes) -> int:
    try:
        compile(data, "<case>", "exec", dont_inherit=True)
        return 2
    except SyntaxError:
        pass
    except ValueError:
        return 0
    try:
        ast.parse(data)
        return 1
    except (SyntaxError, ValueError):
        return 0


# ------------------------------------------------------------------ result-document manipulation


def shift_doc(doc, dline, dcol, newfile):
    """Shift every location of a tool result document; rename the file it refers to."""
    doc = copy.deepcopy(doc)

    def walk(o):
        if isinstance(o, dict):
            if "textRange" in o and isinstance(o["textRange"], dict):  # sonar
                tr = o["textRange"]
                for k in ("startLine", "endLine"):
                    if k in tr:
                        tr[k] += dline
                for k in ("startOffset", "endOffset"):
                    if k in tr:
                        tr[k] += dcol
            if "region" in o and isinstance(o["region"], dict):  # sarif
                r = o["region"]
                for k in ("startLine", "endLine"):
                    if k in r:
                        r[k] += dline
                for k in ("startColumn", "endColumn"):
                    if k in r:
                        r[k] += dcol
            if "file_path" in o and "line" in o:  # defectdojo
                o["line"] += dline
                o["file_path"] = newfile
            if "component" in o and isinstance(o["component"], str):
                o["component"] = newfile
            if "uri" in o and isinstance(o["uri"], str) and ("artifactLocation" not in o):
                o["uri"] = newfile
            for v in o.values():
                walk(v)
        elif isinstance(o, list):
            for v in o:
                walk(v)

    walk(doc)
    return doc


def doc_format(doc):
    if "runs" in doc:
        return "sarif"
    if "results" in doc and isinstance(doc["results"], list):
        return "defectdojo"
    return "sonar"


def merge_docs(docs):
    docs = [d for d in docs if d]
    if not docs:
        return None
    fmt = doc_format(docs[0])
    if fmt == "sonar":
        out = {"issues": [], "hotspots": []}
        for d in docs:
            out["issues"] += d.get("issues") or []
            out["hotspots"] += d.get("hotspots") or []
        if not out["hotspots"]:
            del out["hotspots"]
        return out
    if fmt == "defectdojo":
        return {"count": sum(len(d["results"]) for d in docs), "results": [r for d in docs for r in d["results"]]}
    run = {"tool": {"driver": {"name": "Semgrep OSS", "semanticVersion": "1.90.0", "rules": []}}, "results": []}
    for d in docs:
        for r in d["runs"]:
            run["results"] += r.get("results", [])
    return {"version": "2.1.0", "$schema": "https://docs.oasis-open.org/sarif/sarif/v2.1.0/os/schemas/sarif-schema-2.1.0.json", "runs": [run]}


def doc_findings(doc):
    """Flat list of (start_line, end_line) of the findings in a document (any format)."""
    out = []

    def walk(o, top):
        if isinstance(o, dict):
            if "textRange" in o and top:
                out.append((o["textRange"]["startLine"], o["textRange"].get("endLine", o["textRange"]["startLine"])))
            for k, v in o.items():
                if k in ("flows", "codeFlows", "relatedLocations"):
                    continue
                if k == "region" and isinstance(v, dict) and "startLine" in v:
                    out.append((v["startLine"], v.get("endLine", v["startLine"])))
                walk(v, top and k in ("issues", "hotspots", "results", "runs", "locations", "physicalLocation"))
            if "file_path" in o and "line" in o:
                out.append((o["line"], o["line"]))
        elif isinstance(o, list):
            for v in o:
                walk(v, top)

    walk(doc, True)
    return out


# ------------------------------------------------------------------ text transformations


def _indent(code: str, unit: str) -> str:
    return "".join((unit + l if l.strip() else l) for l in code.splitlines(keepends=True))


def op_wrap(code, kind, i, unit):
    headers, levels = WRAPS[kind]
    body = code
    for _ in range(levels):
        body = _indent(body, unit)
    hdr = ""
    for lvl, h in enumerate(headers):
        h = h.format(i=i)
        # headers are written with 4-space nesting: convert to the unit
        stripped = h.lstrip(" ")
        depth = (len(h) - len(stripped)) // 4
        hdr += unit * depth + stripped + "\n"
    tail = ""
    if kind == "try":
        tail = "finally:\n" + unit + "pass\n"
    if kind == "while":
        body = body + unit + "break\n"
    return hdr + body + tail, len(headers), levels


def op_comment(code):
    """Append a trailing comment to logical lines that end a simple statement (token level)."""
    try:
        toks = list(tokenize.generate_tokens(io.StringIO(code).readline))
    except (tokenize.TokenError, IndentationError, SyntaxError):
        return code
    lines = code.splitlines(keepends=True)
    marks = set()
    for k, t in enumerate(toks):
        if t.type == tokenize.NEWLINE and k > 0 and toks[k - 1].type != tokenize.COMMENT:
            marks.add(t.start)  # (row, col) where the NEWLINE token starts
    for row, col in sorted(marks, reverse=True):
        l = lines[row - 1]
        lines[row - 1] = l[:col] + "  # note" + l[col:]
    return "".join(lines)


def op_alias(code):
    """`import X` (plain, single, unaliased, top of the seed) -> `import X as X_al`, uses renamed."""
    try:
        tree = ast.parse(code)
        toks = list(tokenize.generate_tokens(io.StringIO(code).readline))
    except (SyntaxError, tokenize.TokenError, IndentationError):
        return code
    target = None
    for st_ in tree.body:
        if isinstance(st_, ast.Import) and len(st_.names) == 1 and st_.names[0].asname is None and "." not in st_.names[0].name:
            target = st_
            break
    if target is None:
        return code
    name = target.names[0].name
    alias = name + "_al"
    # bail out if the name is also bound otherwise (from-import of same name, assignment, def ...)
    for n in ast.walk(tree):
        if isinstance(n, ast.alias) and n is not target.names[0] and (n.asname or n.name.split(".")[0]) == name:
            return code
        if isinstance(n, ast.Name) and n.id == name and isinstance(n.ctx, (ast.Store, ast.Del)):
            return code
        if isinstance(n, (ast.FunctionDef, ast.ClassDef, ast.AsyncFunctionDef)) and n.name == name:
            return code
        if isinstance(n, ast.arg) and n.arg == name:
            return code
        if isinstance(n, ast.alias) and n.name == name and n is not target.names[0]:
            return code
    lines = code.splitlines(keepends=True)
    edits = []
    prev = None
    for t in toks:
        if t.type == tokenize.NAME and t.string == name:
            in_import_stmt = t.start[0] == target.lineno
            if in_import_stmt:
                edits.append((t.start, t.end, f"{name} as {alias}"))
            elif prev is None or prev.string != ".":
                # keyword argument names `f(random=1)` are NAME tokens too: skip when followed by '=' inside a call is hard to
                # know at token level; the compile + binding check after the op catches breakage
                edits.append((t.start, t.end, alias))
        if t.type not in (tokenize.NL, tokenize.COMMENT):
            prev = t
    for (r, c0), (_, c1), new in sorted(edits, reverse=True):
        l = lines[r - 1]
        lines[r - 1] = l[:c0] + new + l[c1:]
    return "".join(lines)


def render_part(part, i):
    """-> (text, results_doc_shifted_within_part, applied_ops, dropped_ops)"""
    code = part["code"]
    if not code.endswith("\n"):
        code += "\n"
    base_level = parse_level(code)
    doc = part.get("results")
    unit = "\t" if ["tabs"] in part["ops"] else "    "
    applied, dropped = [], []
    dline = dcol = 0
    for op in part["ops"]:
        if op[0] == "tabs":
            continue
        if op[0] == "wrap":
            new, dl, lv = op_wrap(code, op[1], i, unit)
            dc = lv * len(unit)
        elif op[0] == "comment":
            new, dl, dc = op_comment(code), 0, 0
        elif op[0] == "alias":
            new, dl, dc = op_alias(code), 0, 0
            if doc is not None:  # columns would shift unpredictably
                new = code
        else:
            continue
        if new != code and parse_level(new) >= base_level and parse_level(new) > 0:
            code = new
            dline += dl
            dcol += dc
            applied.append(op)
        else:
            dropped.append(op)
    if unit == "\t" and any(o[0] == "wrap" for o in applied):
        applied.append(["tabs"])
    return code, dline, dcol, applied, dropped


def render(case, filename="code.py"):
    """-> dict(text=bytes, results=doc|None, labels=[...], nparts, dropped=[...], level=parse level of the text)"""
    parts_txt = []
    docs = []
    labels = []
    dropped_all = []
    line_base = 0
    multi = len(case["parts"]) > 1
    for i, part in enumerate(case["parts"]):
        p = dict(part)
        ops = list(p["ops"])
        if multi and not any(o[0] == "wrap" and o[1] in ("def", "async", "method", "nested") for o in ops):
            ops = [["wrap", "def"]] + ops  # each copy gets its own scope
        p["ops"] = ops
        code, dline, dcol, applied, dropped = render_part(p, i)
        if multi and not any(o[0] == "wrap" for o in applied):
            continue  # cannot be scoped: leave this copy out
        if part.get("results") is not None:
            docs.append(shift_doc(part["results"], line_base + dline, dcol, filename))
        parts_txt.append(code)
        line_base += code.count("\n")
        labels += ["op:" + (o[0] + ("=" + str(o[1]) if len(o) > 1 else "")) for o in applied]
        dropped_all += dropped
    if not parts_txt:
        part = case["parts"][0]
        parts_txt = [part["code"] if part["code"].endswith("\n") else part["code"] + "\n"]
        docs = [shift_doc(part["results"], 0, 0, filename)] if part.get("results") is not None else []
    text = "".join(parts_txt)
    base_level = parse_level(text)
    pre_lines = 0
    for op in case.get("file_ops", []):
        if op[0] == "prepend":
            n, style = op[1], op[2]
            if style == "comment":
                pre = "".join(f"# header line {k}\n" for k in range(n))
            elif style == "blank":
                pre = "\n" * n
            else:
                pre = '"""module docstring\n' + "more\n" * max(0, n - 2) + '"""\n'
                n = pre.count("\n")
            if "from __future__" in text and style == "docstring":
                pass
            new = pre + text
            if parse_level(new) >= base_level and not ("from __future__" in text and style != "comment" and style != "blank"):
                text = new
                pre_lines += n
                labels.append("fop:prepend-" + style)
        elif op[0] == "append":
            text = text + "".join(f"_tail{k} = {k}\n" for k in range(op[1]))
            labels.append("fop:append")
    docs = [shift_doc(d, pre_lines, 0, filename) for d in docs]
    # byte-level ops last
    for op in case.get("file_ops", []):
        if op[0] == "formfeed":
            new = text + "\x0c\n_after_ff = 1\n"
            if parse_level(new) >= base_level:
                text = new
                labels.append("fop:formfeed")
    data = text
    for op in case.get("file_ops", []):
        if op[0] == "eol":
            if op[1] == "crlf":
                data = data.replace("\n", "\r\n")
            else:
                ls = data.split("\n")
                data = "".join(l + ("\r\n" if k % 2 else "\n") for k, l in enumerate(ls[:-1])) + ls[-1]
            labels.append("fop:eol-" + op[1])
        elif op[0] == "nofinalnl":
            if data.endswith("\r\n"):
                data = data[:-2]
            elif data.endswith("\n"):
                data = data[:-1]
            labels.append("fop:nofinalnl")
    raw = data.encode("utf-8")
    for op in case.get("file_ops", []):
        if op[0] == "bom":
            raw = b"\xef\xbb\xbf" + raw
            labels.append("fop:bom")
    if parse_level_bytes(raw) < base_level:
        # a byte-level op broke it (should not happen): fall back to plain text
        raw = text.encode("utf-8")
        labels = [l for l in labels if not l.startswith("fop:eol") and l not in ("fop:bom", "fop:nofinalnl")]
    return {
        "data": raw,
        "results": merge_docs(docs),
        "labels": labels + [f"parts={len(parts_txt)}"],
        "nparts": len(parts_txt),
        "dropped": dropped_all,
        "level": parse_level_bytes(raw),
    }


# ------------------------------------------------------------------ Hypothesis strategies


def part_ops():
    return st.lists(
        st.one_of(
            st.tuples(st.just("wrap"), st.sampled_from(sorted(WRAPS))).map(list),
            st.just(["tabs"]),
            st.just(["comment"]),
            st.just(["alias"]),
        ),
        max_size=3,
        unique_by=lambda o: o[0] if o[0] != "wrap" else None or repr(o),
    )


def file_ops():
    return st.lists(
        st.one_of(
            st.tuples(st.just("prepend"), st.integers(1, 4), st.sampled_from(["comment", "blank", "docstring"])).map(list),
            st.tuples(st.just("append"), st.integers(1, 2)).map(list),
            st.tuples(st.just("eol"), st.sampled_from(["crlf", "crlf", "mixed"])).map(list),
            st.just(["nofinalnl"]),
            st.just(["bom"]),
            st.just(["formfeed"]),
        ),
        max_size=3,
        unique_by=lambda o: o[0],
    )


@st.composite
def program_case(draw, codemod_id, seeds, sast_seeds=None, max_parts=3):
    """seeds: list[str]; sast_seeds: list[{"code","results"}] (SAST codemods use these)."""
    nparts = draw(st.sampled_from([1, 1, 1, 2, 3][: 3 + max(0, max_parts - 1)]))
    parts = []
    for _ in range(nparts):
        if sast_seeds:
            s = draw(st.sampled_from(sast_seeds))
            parts.append({"code": s["code"], "results": s["results"], "ops": draw(part_ops())})
        else:
            parts.append({"code": draw(st.sampled_from(seeds)), "results": None, "ops": draw(part_ops())})
    return {"codemod": codemod_id, "parts": parts, "file_ops": draw(file_ops())}


def case_key(case):
    return json.dumps(case, sort_keys=True)
