"""Coverage-guided stage (atheris / libFuzzer) for the cheap in-process targets.

A property module exposes  FUZZ_TARGETS = {name: (strategy_factory, eval_fn(case, stats))}.  The same Hypothesis
strategy and the same oracle as the random tier are used; libFuzzer only chooses the bytes Hypothesis decodes
(`test.hypothesis.fuzz_one_input`), with coverage feedback from the instrumented `codemodder` / `core_codemods`
packages.  Each campaign is its own process (libFuzzer never returns): it stops itself after `runs` executions,
pickles its Stats and leaves with os._exit.

    python -m cmv.fuzz <module> <target> <runs> <seed> <stats-file>
"""
from __future__ import annotations

import os
import pickle
import subprocess
import sys
import tempfile
from pathlib import Path

DEPS = Path(__file__).resolve().parent.parent / ".deps"
WHEELS = "/opt/veriftools/wheels"


def ensure_atheris():
    """atheris is installed beside (not into) the repository's environment, from the offline wheelhouse."""
    if (DEPS / "atheris").exists():
        return True
    DEPS.mkdir(exist_ok=True)
    r = subprocess.run([sys.executable, "-m", "pip", "install", "-q", "--no-index", "--find-links", WHEELS, "--target", str(DEPS), "--no-deps", "atheris"],
                       capture_output=True, text=True)
    return r.returncode == 0 and (DEPS / "atheris").exists()


def fuzz_shard(modname, target, runs, seed, timeout=3600):
    """Run one campaign in a subprocess and return its Stats (called from a property's run_shard)."""
    from . import core

    st = core.Stats()
    if not ensure_atheris():
        st.discard("atheris-not-installable")
        return st
    fd, out = tempfile.mkstemp(prefix="cmv-fuzz-", suffix=".pkl")
    os.close(fd)
    corpus = tempfile.mkdtemp(prefix="cmv-fuzz-corpus-")  # removed below: the campaign leaves through os._exit
    env = dict(os.environ, CMV_FUZZ_CORPUS=corpus, PYTHONPATH=os.pathsep.join([str(DEPS.parent), str(DEPS), os.environ.get("PYTHONPATH", "")]), PYTHONHASHSEED="0")
    try:
        r = subprocess.run([sys.executable, "-m", "cmv.fuzz", modname, target, str(runs), str(seed), out], env=env, cwd=str(DEPS.parent),
                           capture_output=True, text=True, timeout=timeout)
        try:
            with open(out, "rb") as f:
                got = pickle.load(f)
            st.merge(got)
        except Exception:
            st.error(f"fuzz campaign {modname}:{target} left no statistics (exit {r.returncode}): {r.stderr[-1500:]}")
    except subprocess.TimeoutExpired:
        st.discard("fuzz-campaign-timeout")
    finally:
        import shutil

        shutil.rmtree(corpus, ignore_errors=True)
        try:
            os.unlink(out)
        except OSError:
            pass
    return st


def _main(argv):
    modname, target, runs, seed, out = argv[0], argv[1], int(argv[2]), int(argv[3]), argv[4]
    sys.path.insert(0, str(DEPS))
    from . import boot

    os.environ["CMV_NO_REEXEC"] = "1"
    boot.boot()
    import atheris

    with atheris.instrument_imports(include=["codemodder", "core_codemods"]):
        import importlib

        mod = importlib.import_module(modname)
        import codemodder.code_directory  # noqa: F401  (make sure the cheap targets are instrumented)
        import codemodder.registry  # noqa: F401
        import codemodder.result  # noqa: F401
    from hypothesis import given

    from . import core

    strat_factory, fn = mod.FUZZ_TARGETS[target]
    stats = core.Stats()
    state = {"n": 0, "valid": 0}

    @core.hyp_settings(1)
    @given(strat_factory())
    def test(case):
        state["valid"] += 1
        fn(case, stats)

    def dump():
        stats.extra["fuzz"] = {f"{target}:executions": state["n"], f"{target}:valid_inputs": state["valid"]}
        with open(out, "wb") as f:
            pickle.dump(stats, f)

    fuzz_one = test.hypothesis.fuzz_one_input

    def one(data):
        state["n"] += 1
        try:
            fuzz_one(data)
        except BaseException as e:  # an exception escaping the oracle is a harness error, not a finding
            stats.error(f"fuzz target raised {type(e).__name__}: {e}")
            dump()
            os._exit(3)
        if state["n"] >= runs:
            dump()
            os._exit(0)

    corpus = os.environ.get("CMV_FUZZ_CORPUS") or tempfile.mkdtemp(prefix="cmv-fuzz-corpus-")
    atheris.Setup([sys.argv[0], f"-runs={runs * 4 + 1000}", f"-seed={seed or 1}", "-max_len=8192", "-len_control=0", "-print_final_stats=0", corpus], one)
    try:
        atheris.Fuzz()
    finally:
        dump()


if __name__ == "__main__":
    _main(sys.argv[1:])
