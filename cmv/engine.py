"""Shared campaign engine for the program-space properties (C01, C02, C03, C04, C07, C09, C15, ...).

`run_batch` materialises a batch of rendered programs as one project, runs the real CLI on it in a
forked child and returns everything an oracle may need: per-file bytes before/after (from snapshots),
the report, the log and the exit status.
"""
from __future__ import annotations

import json
import os
from dataclasses import dataclass, field
from pathlib import Path

from . import core, harvest, progspace, runner

DJANGO_SETTINGS = ("django-debug-flag-on", "django-session-cookie-secure-off")


def registry():
    from .props.c17 import real_registry

    return real_registry()["r"]


def codemod_by_id(cid):
    return registry()._codemods_by_id[cid]


def kind_of(cm):
    d = type(cm.detector).__name__
    if cm.origin != "pixee":
        return "sast"
    return "rule" if d == "SemgrepRuleDetector" else "plain"


def all_codemods():
    return [(c.id, kind_of(c)) for c in registry().codemods]


def rel_for(cid, k):
    if any(cid.endswith("/" + n) for n in DJANGO_SETTINGS):
        return f"app/m{k}_settings.py"
    return f"src/m{k}.py"


def tool_option(cid):
    origin = cid.split(":")[0]
    return {"sonar": "--sonar-issues-json", "semgrep": "--sarif", "defectdojo": "--defectdojo-findings-json"}.get(origin)


@dataclass
class FileObs:
    rel: str
    before: bytes
    after: bytes | None
    case: dict | None = None
    labels: list = field(default_factory=list)

    @property
    def changed(self):
        return self.after != self.before


@dataclass
class BatchObs:
    argv: list
    res: runner.RunResult
    before: dict
    after: dict
    files: list  # FileObs for the program files
    root: Path | None = None

    def changesets(self, rel):
        out = []
        for r in (self.res.report or {}).get("results", []):
            for cs in r.get("changeset", []):
                if cs["path"] == rel:
                    out.append((r["codemod"], cs))
        return out


def build_project(root: Path, codemod_ids, rendered, extra_files=None):
    """rendered: list of (case, render-dict).  Returns (relpaths, result-file argv)."""
    proj = root / "proj"
    files = {"manage.py": "", "README.txt": "not python\n"}
    rels = []
    first = codemod_ids[0]
    docs_by_tool = {}
    for k, (case, rd) in enumerate(rendered):
        rel = rel_for(case["codemod"] if case else first, k)
        rels.append(rel)
        files[rel] = rd["data"]
        if rd.get("results"):
            opt = tool_option(case["codemod"])
            doc = progspace.shift_doc(rd["results"], 0, 0, rel)
            if rd.get("sonar_project_key") and progspace.doc_format(doc) == "sonar":
                # Sonar components are `<project key>:<path>`; the key itself may contain colons (com.acme:shop)
                for e in (doc.get("issues") or []) + (doc.get("hotspots") or []):
                    if e.get("component") == rel:
                        e["component"] = rd["sonar_project_key"] + ":" + rel
            docs_by_tool.setdefault(opt, []).append(doc)
    if extra_files:
        files.update(extra_files)
    runner.write_tree(proj, files)
    argv_extra = []
    split = max([rd.get("split_results", 1) for _, rd in rendered] + [1])
    for opt, docs in docs_by_tool.items():
        merged = progspace.merge_docs(docs)
        pieces = progspace.split_doc(merged, split) if split > 1 else [merged]
        paths = []
        for i, piece in enumerate(pieces):
            p = root / (opt.strip("-") + (f".{i}" if i else "") + ".json")
            p.write_text(json.dumps(piece))
            paths.append(str(p))
        argv_extra += [opt, ",".join(paths)]
    return proj, rels, argv_extra


def run_batch(codemod_ids, rendered, extra_argv=(), extra_files=None, seams=(), keep_root=None, timeout=900, env=None, cwd_mode="abs") -> BatchObs:
    """One CLI invocation over a project holding all `rendered` programs."""
    ctx = runner.scratch("eng") if keep_root is None else None
    root = ctx.__enter__() if ctx else keep_root
    try:
        proj, rels, res_argv = build_project(root, codemod_ids, rendered, extra_files)
        out = root / "out.codetf"
        argv = [str(proj), "--output", str(out), "--codemod-include", ",".join(codemod_ids)] + res_argv + list(extra_argv)
        before = runner.snapshot(proj)
        res = runner.run_cli(argv, cwd=str(root), output=out, seams=seams, timeout=timeout, env=env)
        after = runner.snapshot(proj)
        files = []
        for (case, rd), rel in zip(rendered, rels):
            a = after.get(rel)
            files.append(FileObs(rel, rd["data"], a[1] if a and a[0] == "f" else None, case, rd["labels"]))
        return BatchObs(argv, res, before, after, files, root if keep_root is not None else None)
    finally:
        if ctx:
            ctx.__exit__(None, None, None)


def rerun(obs_root: Path, argv, seams=(), timeout=900):
    """Second invocation with identical argv on the project left by a run_batch(keep_root=...)."""
    proj = Path(argv[0])
    out = Path(argv[2])
    before = runner.snapshot(proj)
    res = runner.run_cli(argv, cwd=str(obs_root), output=out, seams=seams, timeout=timeout)
    after = runner.snapshot(proj)
    return res, before, after


# ---------------------------------------------------------------------------- campaign plumbing


def seeds_for(cid):
    h = harvest.harvest().get(cid, {"seeds": [], "sast": []})
    cm = codemod_by_id(cid)
    if kind_of(cm) == "sast":
        return [], h["sast"]
    seeds = list(h["seeds"])
    return seeds, None


def codemod_shards(tier, seed, per_shard_quick, per_shard_thorough, kinds=("plain", "rule", "sast"), batch=8):
    """Static partition of the registered codemods over shards (one shard = a few codemods)."""
    cms = [(cid, k) for cid, k in all_codemods() if k in kinds]
    only = os.environ.get("CMV_ONLY")  # triage aid: restrict a campaign to codemod ids containing this text
    if only:
        cms = [c for c in cms if only in c[0]]
    # rule-detected ones are the slowest: spread them first
    cms.sort(key=lambda x: {"rule": 0, "sast": 1, "plain": 2}[x[1]])
    nshards = 16
    buckets = [[] for _ in range(nshards)]
    for i, c in enumerate(cms):
        buckets[i % nshards].append(c)
    n = per_shard_quick if tier == "quick" else per_shard_thorough
    return [{"codemods": b, "n": n, "seed": seed * 1000 + i, "batch": batch, "sweep": 8 if tier == "quick" else 1} for i, b in enumerate(buckets) if b]


SWEEP_PART_OPS = (
    [[["wrap", k]] for k in sorted(progspace.WRAPS)]
    + [[["tabs"], ["wrap", "def"]], [["comment"]], [["alias"]], [["dupimport"]], [["mlimport"]]]
    + [[["addarg", k, s_]] for k in (0, 1) for s_ in ("pos", "kw", "star", "comma")]
    + [[["quote", k, s_]] for k in (0, 1, 2) for s_ in ("flip", "inject", "flipinject", "mix")]
    + [[["nest", k]] for k in (0, 1, 2)]
    + [[["nonascii", k]] for k in (0, 1, 2)]
    + [[["breakattr", k]] for k in (0, 1, 2)]
    + [[["kwcall", k]] for k in (0, 1)]
    + [[["insetlist", k]] for k in (0, 1)]
    + [[["widenimport", k]] for k in (0, 1)]
    + [[["parenbreak", k]] for k in (0, 1, 2)]
    + [[["bodyhead", 0, s_]] for s_ in ("for", "if", "with", "try", "def", "docstring")]
    + [[["dictsplat", k]] for k in (0, 1)]
    + [[["sameline", k]] for k in (0, 1, 2)]
    + [[["tuplerhs", k, s_]] for k in (0, 1) for s_ in ("tuple", "lambda")]
)
SWEEP_FILE_OPS = [[["scopes"]], [["eol", "crlf"]], [["eol", "mixed"]], [["nofinalnl"]], [["bom"]], [["formfeed"]], [["prepend", 2, "docstring"]], [["prepend", 1, "comment"], ["append", 1]]]


def _spread(items, k, offset):
    """k items spread evenly over the list, rotated by `offset` (a function of VERIF_SEED): different
    seeds cover different triggers, every run is reproducible."""
    n = len(items)
    if n <= k:
        return list(items)
    step = n / k
    return [items[(offset + int(i * step)) % n] for i in range(k)]


def sweep_cases(cid, seeds, sast, rotate, offset=0):
    """Deterministic single-feature sweep over ALL harvested triggers of the codemod: trigger i is combined with
    every op j for which (i + j + offset) % rotate == 0 (rotate = 1: every (trigger, op) pair; quick uses 4, so
    each trigger meets a quarter of the ops and VERIF_SEED rotates which quarter)."""
    out = []
    pool = [(s["code"], s["results"]) for s in sast] if sast else [(c, None) for c in seeds]
    variants = [("part", ops) for ops in SWEEP_PART_OPS] + [("file", f) for f in SWEEP_FILE_OPS] + [("plain", None), ("multi", None)]
    for i, (code, doc) in enumerate(pool):
        for j, (kind, ops) in enumerate(variants):
            if (i + j + offset) % rotate:
                continue
            if kind == "part":
                out.append({"codemod": cid, "parts": [{"code": code, "results": doc, "ops": ops}], "file_ops": []})
            elif kind == "file":
                out.append({"codemod": cid, "parts": [{"code": code, "results": doc, "ops": []}], "file_ops": ops})
            elif kind == "plain":
                out.append({"codemod": cid, "parts": [{"code": code, "results": doc, "ops": []}], "file_ops": []})
            else:
                out.append({"codemod": cid, "parts": [{"code": code, "results": doc, "ops": [["wrap", "def"]]}, {"code": code, "results": doc, "ops": [["wrap", "method"]]}], "file_ops": []})
    return out


def drive_programs(spec, handle_batch, stats: core.Stats, max_parts=3):
    """For every codemod of the shard draw `n` batches of programs with Hypothesis and hand them to
    `handle_batch(cid, kind, [(case, rendered)...])`."""
    from hypothesis import strategies as st

    for cid, kind in spec["codemods"]:
        seeds, sast = seeds_for(cid)
        if not seeds and not sast:
            stats.discard("no-seed:" + cid)
            continue
        if spec.get("sweep"):
            seen = set()
            chunk = []
            for c in sweep_cases(cid, seeds, sast, spec["sweep"], spec["seed"] // 1000):
                rd = progspace.render(c, "code.py")
                h = core.sha(rd["data"])
                if rd["level"] == 0 or h in seen:  # op not applicable to this seed -> same text as another case
                    continue
                seen.add(h)
                stats.labels["sweep"] += 1
                chunk.append((c, rd))
                if len(chunk) == (90 if kind == "rule" else 60):
                    handle_batch(cid, kind, chunk)
                    chunk = []
            if chunk:
                handle_batch(cid, kind, chunk)
        # one semgrep invocation costs more than 30 transformer applications: rule-detected codemods get
        # three times as many programs per CLI run
        bsz = spec["batch"] * (3 if kind == "rule" else 1)
        strat = st.lists(progspace.program_case(cid, seeds, sast, max_parts=max_parts), min_size=bsz, max_size=bsz)

        def fn(cases, cid=cid, kind=kind):
            rendered = []
            for c in cases:
                rd = progspace.render(c, "code.py")
                if rd["level"] == 0:
                    stats.discard("render-invalid")
                    continue
                for d in rd["dropped"]:
                    stats.labels["dropped-op:" + d[0]] += 1
                rendered.append((c, rd))
            if rendered:
                handle_batch(cid, kind, rendered)

        n = spec["n"] if kind != "rule" else max(2, spec["n"] // 2)
        core.drive(strat, fn, n, spec["seed"] + (hash_str(cid) % 997))


def hash_str(s):
    import zlib

    return zlib.crc32(s.encode())
