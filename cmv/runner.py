"""Fork-isolated CLI runner, tree snapshots and scratch directories.

Every CLI run happens in a forked child of a process that has codemodder imported
already: the child calls ``codemodder.codemodder.run(argv)`` exactly like the console
script (``sys.exit(run(sys.argv[1:]))``) and its exit status is the status the real
process would have had.  Nothing leaks between runs (functools caches, logging handlers).
"""
from __future__ import annotations

import contextlib
import json
import os
import shutil
import signal
import sys
import tempfile
import time
import traceback
from dataclasses import dataclass, field
from pathlib import Path

SCRATCH_BASE = os.environ.get("CMV_SCRATCH", "/tmp/cmv-scratch")


@dataclass
class RunResult:
    exit: int
    stdout: str
    stderr: str
    report: dict | None = None
    report_raw: bytes | None = None
    timed_out: bool = False
    extra: dict = field(default_factory=dict)

    @property
    def log(self):
        return self.stdout + "\n" + self.stderr


def preload():
    """Import the code under test once in the parent so that children are cheap."""
    import codemodder.codemodder  # noqa: F401
    import codemodder.registry  # noqa: F401

    try:
        from codemodder.registry import load_registered_codemods

        load_registered_codemods()  # imports every codemod module
    except Exception:
        traceback.print_exc()


@contextlib.contextmanager
def scratch(prefix="s", base=None):
    base = base or SCRATCH_BASE
    os.makedirs(base, exist_ok=True)
    d = tempfile.mkdtemp(prefix=f"{prefix}-{os.getpid()}-", dir=base)
    try:
        yield Path(d)
    finally:
        shutil.rmtree(d, ignore_errors=True)


def write_tree(root: Path, files: dict):
    """files: relpath -> bytes | str | ('symlink', target)"""
    for rel, content in files.items():
        p = root / rel
        p.parent.mkdir(parents=True, exist_ok=True)
        if isinstance(content, (tuple, list)) and content and content[0] == "symlink":
            os.symlink(content[1], p)
        elif isinstance(content, str):
            p.write_bytes(content.encode("utf-8"))
        else:
            p.write_bytes(content)


def snapshot(root: Path) -> dict:
    """relpath -> ('f', bytes) | ('l', target) | ('d',)   (does not follow symlinks)"""
    snap = {}
    root = Path(root)
    for dirpath, dirnames, filenames in os.walk(root, followlinks=False):
        for name in list(dirnames) + filenames:
            p = os.path.join(dirpath, name)
            rel = os.path.relpath(p, root)
            if os.path.islink(p):
                snap[rel] = ("l", os.readlink(p))
            elif os.path.isdir(p):
                snap[rel] = ("d",)
            else:
                try:
                    with open(p, "rb") as f:
                        snap[rel] = ("f", f.read())
                except OSError as e:  # pragma: no cover
                    snap[rel] = ("e", str(e))
    return snap


def snap_diff(a: dict, b: dict):
    """(created, deleted, modified) relpaths"""
    created = sorted(k for k in b if k not in a)
    deleted = sorted(k for k in a if k not in b)
    modified = sorted(k for k in a if k in b and a[k] != b[k])
    return created, deleted, modified


def run_cli(
    argv,
    cwd=None,
    env=None,
    seams=(),
    timeout=600,
    argv0="codemodder",
    output=None,
    tmpdir=None,
) -> RunResult:
    """Run the CLI in a forked child.  `seams` are callables applied in the child first."""
    argv = [str(a) for a in argv]
    with scratch("run") as sd:
        out_p, err_p = sd / "stdout", sd / "stderr"
        child_tmp = Path(tmpdir) if tmpdir else sd / "tmp"
        child_tmp.mkdir(exist_ok=True)
        sys.stdout.flush()
        sys.stderr.flush()
        pid = os.fork()
        if pid == 0:  # child
            code = 70
            try:
                os.setpgid(0, 0)
                fo = os.open(out_p, os.O_WRONLY | os.O_CREAT | os.O_TRUNC)
                fe = os.open(err_p, os.O_WRONLY | os.O_CREAT | os.O_TRUNC)
                os.dup2(fo, 1)
                os.dup2(fe, 2)
                dn = os.open(os.devnull, os.O_RDONLY)
                os.dup2(dn, 0)
                sys.stdout = os.fdopen(1, "w", buffering=1, closefd=False)
                sys.stderr = os.fdopen(2, "w", buffering=1, closefd=False)
                if cwd:
                    os.chdir(cwd)
                os.environ["TMPDIR"] = str(child_tmp)
                tempfile.tempdir = None
                if env:
                    for k, v in env.items():
                        if v is None:
                            os.environ.pop(k, None)
                        else:
                            os.environ[k] = v
                sys.argv = [argv0] + argv
                for s in seams:
                    s()
                from codemodder.codemodder import run

                try:
                    rc = run(argv)
                    code = 0 if rc is None else (rc if isinstance(rc, int) else 1)
                except SystemExit as e:
                    if e.code is None:
                        code = 0
                    elif isinstance(e.code, int):
                        code = e.code
                    else:
                        print(e.code, file=sys.stderr)
                        code = 1
                except BaseException:
                    traceback.print_exc()
                    code = 1
                try:
                    sys.stdout.flush()
                    sys.stderr.flush()
                except Exception:
                    pass
            finally:
                os._exit(code & 0xFF)
        # parent
        t0 = time.time()
        timed_out = False
        status = None
        while True:
            wpid, st = os.waitpid(pid, os.WNOHANG)
            if wpid == pid:
                status = st
                break
            if time.time() - t0 > timeout:
                timed_out = True
                try:
                    os.killpg(pid, signal.SIGKILL)
                except ProcessLookupError:
                    pass
                _, status = os.waitpid(pid, 0)
                break
            time.sleep(0.003)
        if os.WIFEXITED(status):
            code = os.WEXITSTATUS(status)
        else:
            code = 128 + os.WTERMSIG(status)
        res = RunResult(
            exit=code,
            stdout=_read(out_p),
            stderr=_read(err_p),
            timed_out=timed_out,
        )
        if output is not None:
            op = Path(output)
            if not op.is_absolute() and cwd:
                op = Path(cwd) / op
            if op.is_file():
                try:
                    res.report_raw = op.read_bytes()
                    res.report = json.loads(res.report_raw.decode("utf-8"))
                except Exception:
                    res.report = None
        return res


def _read(p):
    try:
        return Path(p).read_bytes().decode("utf-8", "replace")
    except OSError:
        return ""


def run_subprocess(argv, cwd=None, env=None, timeout=900, output=None) -> RunResult:
    """Run the installed console script as a real subprocess (fidelity cross-check)."""
    import subprocess

    e = dict(os.environ)
    if env:
        for k, v in env.items():
            if v is None:
                e.pop(k, None)
            else:
                e[k] = v
    p = subprocess.run(
        ["/venv/bin/codemodder"] + [str(a) for a in argv],
        cwd=cwd,
        env=e,
        capture_output=True,
        timeout=timeout,
    )
    res = RunResult(p.returncode, p.stdout.decode("utf-8", "replace"), p.stderr.decode("utf-8", "replace"))
    if output is not None:
        op = Path(output)
        if not op.is_absolute() and cwd:
            op = Path(cwd) / op
        if op.is_file():
            try:
                res.report_raw = op.read_bytes()
                res.report = json.loads(res.report_raw.decode("utf-8"))
            except Exception:
                res.report = None
    return res


def executed_codemods(log: str):
    out = []
    for line in log.splitlines():
        if line.startswith("running codemod "):
            out.append(line[len("running codemod "):].strip())
    return out
