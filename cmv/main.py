import importlib
import sys
import traceback

from . import boot


def _main():
    boot.boot()
    if len(sys.argv) < 2:
        print("usage: check <ID> quick|thorough | --replay <file>", file=sys.stderr)
        return 2
    pid = sys.argv[1].upper()
    try:
        mod = importlib.import_module(f"cmv.props.{pid.lower()}")
    except ModuleNotFoundError:
        traceback.print_exc()
        return 2
    from . import core

    try:
        return core.main(mod, sys.argv[2:])
    except core.HarnessError as e:
        print(f"HARNESS-ERROR: {e}", file=sys.stderr)
        return 2
    except Exception:
        traceback.print_exc()
        return 2


if __name__ == "__main__":
    sys.exit(_main())
