"""C02 -- rewrites never introduce unbound names or drop bindings still in use."""
from __future__ import annotations

import json

from .. import core, engine, names, progspace
from . import _prog

ID = "C02"
LEVEL = "exploration"
TECHNIQUE = "Hypothesis-generated programs through the real CLI; invariant unresolved(after) ⊆ unresolved(before) computed with the stdlib symtable (scope-aware, independent of libcst)"
RULE = (
    "same program space as C01 (every registered codemod; harvested triggers x wrap contexts incl. function/method/nested function, import alias, "
    "layout variants, 1-3 sites per file); oracle: the set of names that are read but bound neither in an enclosing scope, at module level, nor as "
    "builtins (stdlib symtable, flow-insensitive) must not grow.  Non-trivial = the run changed the file and both versions parse; 'deep' = the set "
    "of import statements or module-level bindings changed.  Distinct = distinct (codemod, input bytes)."
)
ASSUMPTIONS = [
    "files with `from x import *` are skipped for this oracle (counted as star-import)",
    "attribute-level errors (module has no such attribute) are not name-binding errors and are outside this property; use-before-assignment ordering is not checked (the statement is flow-insensitive)",
]


def _imports(src: bytes):
    import ast

    out = set()
    try:
        for n in ast.walk(ast.parse(src)):
            if isinstance(n, (ast.Import, ast.ImportFrom)):
                out.add(ast.dump(n))
    except SyntaxError:
        pass
    return out


def judge(f, cid, kind, labels, stats, obs):
    changed = f.after is not None and f.changed
    key = [cid, core.sha(f.before)]
    if not changed:
        stats.case(key, False, labels)
        return
    try:
        ub = names.unresolved(f.before)
        ua = names.unresolved(f.after)
    except names.StarImport:
        stats.discard("star-import")
        stats.case(key, False, labels + ["star-import"])
        return
    except (SyntaxError, ValueError):
        stats.discard("does-not-parse")  # C01's business
        stats.case(key, False, labels + ["unparseable"])
        return
    deep = _imports(f.before) != _imports(f.after)
    stats.case(key, True, labels + ["changed"] + (["deep:imports-changed"] if deep else []), sample=_prog.sample_of(f))
    new = sorted(ua - ub)
    if new:
        stats.violation(cid, "new-unresolved-name", _prog.single_case(f),
                        json.dumps({"new_unresolved": new, "before": f.before.decode("utf-8", "replace"), "after": f.after.decode("utf-8", "replace")})[:6000],
                        features=[l for l in f.labels if l.startswith(("op:", "fop:"))])


def shards(tier, seed):
    return engine.codemod_shards(tier, seed + 7, per_shard_quick=2, per_shard_thorough=30, batch=8)


def line_excludes(rendered):
    """For one file in three (a deterministic function of its bytes, so that a replay sees the same run) two of its
    lines are excluded with --path-exclude path:line: an edit that is only half applied under a line filter (one
    statement of a two-statement rewrite skipped) leaves a name unbound."""
    items = []
    for k, (case, rd) in enumerate(rendered):
        h = int(core.sha(rd["data"]), 16)
        if h % 3:
            continue
        rel = engine.rel_for(case["codemod"], k)
        n = rd["data"].count(b"\n") + 1
        for l in sorted({1 + (h >> 8) % n, 1 + (h >> 24) % n, 1 + (h >> 40) % n}):
            items.append(f"{rel}:{l}")
    return ["--path-exclude", ",".join(items)] if items else []


def _handle(stats):
    def handle(cid, kind, rendered):
        argv = line_excludes(rendered)
        obs = engine.run_batch([cid], rendered, extra_argv=argv)
        if obs.res.exit != 0 or obs.res.report is None:
            stats.discard(f"run-exit-{obs.res.exit}")
            stats.labels["run-failed:" + cid] += 1
            return
        excluded = {a.rsplit(":", 1)[0] for a in (argv[1].split(",") if argv else [])}
        for f in obs.files:
            labels = ["kind:" + kind, "codemod:" + cid] + f.labels + (["lines-excluded"] if f.rel in excluded else [])
            judge(f, cid, kind, labels, stats, obs)

    return handle


def run_shard(spec):
    stats = core.Stats()
    engine.drive_programs(spec, _handle(stats), stats)
    return stats


def replay(case):
    prog = case["program"]
    rd = progspace.render(prog, "code.py")
    cid = prog["codemod"]
    st = core.Stats()
    _handle(st)(cid, engine.kind_of(engine.codemod_by_id(cid)), [(prog, rd)])
    return st.violations


def minimise(case, kind=None):
    return _prog.minimise_program(case, judge, kind)
