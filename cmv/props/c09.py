"""C09 -- a multi-codemod run equals running the same codemods one at a time, in order."""
from __future__ import annotations

import copy
import json
import os
import shutil
from pathlib import Path

from hypothesis import strategies as st

from .. import core, engine, harvest, progspace, runner
from .c03 import ADDERS, MANIFESTS, UNUSABLE, manifest_bytes, manifest_files

ID = "C09"
LEVEL = "exploration"
TECHNIQUE = "Hypothesis-generated projects and codemod sequences; differential over histories: one CLI invocation with K1..Kn vs n invocations in order on the evolving tree; trees and per-codemod results compared"
RULE = (
    "projects of 1-3 multi-trigger files (seeds of the sequence's codemods concatenated, each in its own scope, so every file triggers several of them; "
    "plus hand-written same-line co-triggers) + optional manifest (4 kinds) x sequences of 2-5 codemods biased to pairs touching the same file / the same "
    "line / the same manifest, rule-detected codemods included (semgrep prefilter computed once in the batch run) and dependency adders.  Copy A: one "
    "invocation --codemod-include K1,..,Kn.  Copy B: n invocations in order on the evolving tree.  Trees must be byte-identical; for each i the result "
    "(codemod, changeset paths/diffs/changes, failed files, unfixed findings, description incl. dependency notice) must be equal.  Both final trees are "
    "also checked with C01's oracle (every changed file still parses).  Non-trivial = >=2 codemods produced a changeset and some file is named by >=2 of "
    "them, or a manifest is involved; distinct = distinct (sequence, project bytes)."
)
ASSUMPTIONS = [
    "change entries of a changeset and unfixed findings are compared as multisets (their order is not part of the statement)",
    "failedFiles are compared as multisets of paths relative to the project; run.elapsed / commandLine / directory are not part of a per-codemod result",
    "the whole default set in one history is exercised in the thorough tier only (about 2 minutes per history)",
]

SAME_LINE = [
    # (codemods, code): several codemods want the same line
    (["pixee:python/requests-verify", "pixee:python/add-requests-timeouts", "pixee:python/url-sandbox"],
     "import requests\n\nurl = input()\nr = requests.get(url, verify=False)\n"),
    (["pixee:python/secure-random", "pixee:python/use-set-literal"],
     "import random\n\nx = set([random.random(), 2])\n"),
    (["pixee:python/fix-deprecated-logging-warn", "pixee:python/lazy-logging"],
     "import logging\n\nname = 'n'\nlogging.warn('hello %s' % name)\n"),
    (["pixee:python/use-generator", "pixee:python/use-set-literal"],
     "y = any([i for i in set([1, 2])])\n"),
    (["pixee:python/url-sandbox", "pixee:python/sandbox-process-creation"],
     "import requests\nimport subprocess\n\nu = input()\nrequests.get(u)\nsubprocess.run(u)\n"),
    (["pixee:python/unused-imports", "pixee:python/order-imports", "pixee:python/secure-random"],
     "import sys\nimport random\nimport os\n\nprint(random.random(), os.sep)\n"),
    (["pixee:python/harden-pickle-load", "pixee:python/use-defusedxml"],
     "import pickle\nfrom xml.etree import ElementTree\n\nd = pickle.load(open('f', 'rb'))\nt = ElementTree.parse('x.xml')\n"),
    (["pixee:python/remove-unnecessary-f-str", "pixee:python/lazy-logging"],
     "import logging\n\nlogging.info(f'hello' + 'x' % ())\nz = f'plain'\n"),
]


def usable_ids():
    h = harvest.harvest()
    return [cid for cid, k in engine.all_codemods() if k in ("plain", "rule") and h.get(cid, {}).get("seeds")]


@st.composite
def history(draw):
    ids = usable_ids()
    plain = [c for c in ids if engine.kind_of(engine.codemod_by_id(c)) == "plain"]
    rule = [c for c in ids if c not in plain]
    mode = draw(st.sampled_from(["random", "random", "sameline", "adders"]))
    h = harvest.harvest()
    files = []
    if mode == "sameline":
        seq, code = draw(st.sampled_from(SAME_LINE))
        seq = list(draw(st.permutations(seq)))
        extra = draw(st.lists(st.sampled_from(plain), max_size=2, unique=True))
        seq = list(dict.fromkeys(seq + extra))
        files.append({"codemod": seq[0], "parts": [{"code": code, "results": None, "ops": draw(st.sampled_from([[], [["wrap", "def"]], [["wrap", "method"]]]))}], "file_ops": draw(progspace.file_ops())})
    else:
        n = draw(st.integers(2, 5))
        pool = plain * 3 + rule
        seq = draw(st.lists(st.sampled_from(pool), min_size=n, max_size=n, unique=True))
        if mode == "adders":
            seq = list(dict.fromkeys(draw(st.lists(st.sampled_from(ADDERS + ["pixee:python/url-sandbox", "pixee:python/sandbox-process-creation"]), min_size=2, max_size=3, unique=True)) + seq[:2]))
    for _ in range(draw(st.integers(1, 3)) if mode != "sameline" else draw(st.integers(0, 1))):
        parts = []
        for cid in draw(st.lists(st.sampled_from(seq), min_size=2, max_size=4)):
            parts.append({"code": draw(st.sampled_from(h[cid]["seeds"])), "results": None, "ops": [["wrap", draw(st.sampled_from(["def", "def", "method", "nested"]))]]})
        files.append({"codemod": seq[0], "parts": parts, "file_ops": draw(progspace.file_ops())})
    mkind = draw(st.sampled_from(["none", "none", "requirements.txt", "pyproject.toml", "setup.py", "setup.cfg"]))
    if mode == "adders" and mkind == "none":
        mkind = "requirements.txt"
    if mode == "adders" and mkind in ("setup.py", "requirements.txt") and draw(st.booleans()):
        # setup.py is the manifest and a source file at once: a later codemod of the run rewrites what the
        # dependency writer has just written
        mkind = "setup.py+site"
        seq = [c for c in seq if c != "pixee:python/use-set-literal"] + ["pixee:python/use-set-literal"]
    unusable = draw(st.lists(st.sampled_from(sorted(UNUSABLE)), max_size=2, unique=True)) if draw(st.integers(0, 3)) == 0 else []
    return {"sequence": seq, "files": files, "manifest": [mkind, draw(st.sampled_from(["lf", "lf", "crlf", "nofinalnl"])), unusable],
            # a file no codemod can parse (every codemod of the run that visits it reports it as failed)
            "broken": draw(st.booleans()),
            # copies of the first file in directories that tools commonly skip by default (vendor/, node_modules/)
            "vendored": draw(st.booleans())}


def norm_result(r, root: Path):
    r = copy.deepcopy(r)
    proj = root / "proj"
    ff = []
    for f in r.get("failedFiles") or []:
        p = Path(f) if os.path.isabs(f) else root / f
        try:
            ff.append(os.path.relpath(p, proj))
        except ValueError:
            ff.append(f)
    r["failedFiles"] = sorted(ff)
    # the order of change entries inside one changeset is not part of "the same per-codemod changes"
    # (it is compared as a multiset here; run-to-run determinism of that order is C11's business)
    for cs in r.get("changeset", []):
        cs["changes"] = sorted(cs.get("changes", []), key=lambda c: json.dumps(c, sort_keys=True))
    r["unfixedFindings"] = sorted(r.get("unfixedFindings") or [], key=lambda c: json.dumps(c, sort_keys=True))
    return r


def eval_history(case, stats=None):
    st_ = stats or core.Stats()
    v0 = len(st_.violations)
    seq = case["sequence"]
    rendered = []
    for fc in case["files"]:
        rd = progspace.render(fc, "code.py")
        if rd["level"]:
            rendered.append((fc, rd))
    if not rendered:
        return []
    mkind, mvar = case["manifest"][:2]
    extra = manifest_files(case["manifest"])
    if case.get("broken"):
        extra["src/legacy_py2.py"] = b"print 'python 2'\nx = set([1, 2])\n"
    if case.get("vendored"):
        extra["vendor/legacy/util.py"] = rendered[0][1]["data"]
        extra["node_modules/pkg/gen.py"] = rendered[0][1]["data"]
    with runner.scratch("c09a") as ra, runner.scratch("c09b") as rb:
        # copy A: batch
        proja, rels, _ = engine.build_project(ra, seq, rendered, extra)
        outa = ra / "out.codetf"
        resa = runner.run_cli([str(proja), "--output", str(outa), "--codemod-include", ",".join(seq)], cwd=str(ra), output=outa, timeout=1800)
        treea = runner.snapshot(proja)
        # copy B: one invocation per codemod on the evolving tree
        projb, _, _ = engine.build_project(rb, seq, rendered, extra)
        before = runner.snapshot(projb)
        resb = []
        for i, cid in enumerate(seq):
            outb = rb / f"out{i}.codetf"
            resb.append(runner.run_cli([str(projb), "--output", str(outb), "--codemod-include", cid], cwd=str(rb), output=outb, timeout=900))
        treeb = runner.snapshot(projb)
        roota, rootb = Path(ra), Path(rb)
        labels = [f"seq={len(seq)}", "manifest=" + mkind] + (["unparsable-file"] if case.get("broken") else []) + (["vendored-copies"] if case.get("vendored") else [])
        if any(engine.kind_of(engine.codemod_by_id(c)) == "rule" for c in seq):
            labels.append("has-rule-detected")
        feats = sorted(set(["manifest:" + mkind] if mkind != "none" else []))
        comp = "+".join(c.split("/")[-1] for c in seq) if len(seq) <= 3 else "sequence"
        if resa.exit != 0 or any(r.exit != 0 for r in resb) or resa.report is None or any(r.report is None for r in resb):
            st_.discard("exit-%s/%s" % (resa.exit, [r.exit for r in resb]))
            st_.case(case, False, labels + ["run-failed"])
            if (resa.exit == 0) != all(r.exit == 0 for r in resb):
                st_.violation("sequence", "batch-and-sequential-exit-differently", {"history": case}, json.dumps({"batch": resa.exit, "sequential": [r.exit for r in resb], "stderr": resa.stderr[-600:]}), features=feats)
            return st_.violations[v0:]
        ra_results = [norm_result(r, roota) for r in resa.report["results"]]
        rb_results = [norm_result(r.report["results"][0], rootb) if r.report["results"] else None for r in resb]
    touched = {}
    for r in ra_results:
        for cs in r.get("changeset", []):
            touched.setdefault(cs["path"], set()).add(r["codemod"])
    n_with_cs = sum(1 for r in ra_results if r.get("changeset"))
    manifest_touched = any(p.rsplit("/", 1)[-1] in [m.split("+")[0] for m in MANIFESTS] for p in touched)
    nontriv = (n_with_cs >= 2 and any(len(v) >= 2 for v in touched.values())) or manifest_touched
    if any(len(v) >= 2 for v in touched.values()):
        labels.append("file-touched-by>=2")
    if manifest_touched:
        labels.append("manifest-touched")
    st_.case(case, nontriv, labels, sample={"sequence": seq, "manifest": case["manifest"], "touched": {k: sorted(v) for k, v in touched.items()}})
    if treea != treeb:
        _, _, mod = runner.snap_diff(treea, treeb)
        cr, de, _ = runner.snap_diff(treea, treeb)
        rel = (mod or cr or de)[0]
        st_.violation(comp, "final-trees-differ", {"history": case},
                      json.dumps({"sequence": seq, "file": rel, "original": before.get(rel, ("", b""))[1].decode("utf-8", "replace") if before.get(rel) else None,
                                  "batch": treea.get(rel, ("", b""))[1].decode("utf-8", "replace") if treea.get(rel) and treea[rel][0] == "f" else None,
                                  "sequential": treeb.get(rel, ("", b""))[1].decode("utf-8", "replace") if treeb.get(rel) and treeb[rel][0] == "f" else None})[:7000], features=feats)
    if len(ra_results) != len(seq):
        st_.violation(comp, "batch-report-result-count", {"history": case}, json.dumps({"sequence": seq, "reported": [r["codemod"] for r in ra_results]}), features=feats)
    else:
        for i, (a, b) in enumerate(zip(ra_results, rb_results)):
            if b is None or a != b:
                ks = sorted(k for k in set(a) | set(b or {}) if a.get(k) != (b or {}).get(k))
                st_.violation(comp, "per-codemod-result-differs:" + ",".join(ks), {"history": case},
                              json.dumps({"sequence": seq, "codemod": a["codemod"], "position": i, "fields": ks, "batch": {k: a.get(k) for k in ks}, "sequential": {k: (b or {}).get(k) for k in ks}}, default=str)[:7000], features=feats)
                break
    # validity of what the batch run left behind (sequences are part of C01's quantifier)
    for rel, v in treea.items():
        if v[0] == "f" and rel.endswith(".py") and before.get(rel) != v:
            lb = progspace.parse_level_bytes(before[rel][1]) if rel in before else 0
            if progspace.parse_level_bytes(v[1]) < lb:
                st_.violation(comp, "sequence-leaves-invalid-python", {"history": case}, json.dumps({"sequence": seq, "file": rel, "after": v[1].decode("utf-8", "replace")})[:5000], features=feats)
    return st_.violations[v0:]


BUDGET = {"quick": {"n": 5, "default": 0}, "thorough": {"n": 70, "default": 4}}


def shards(tier, seed):
    b = BUDGET[tier]
    out = [{"kind": "default", "i": i} for i in range(b["default"])]
    out += [{"kind": "hist", "n": b["n"], "seed": seed * 1000 + i} for i in range(16)]
    return out


def default_history(i):
    """The whole default set on a multi-trigger project."""
    h = harvest.harvest()
    reg = engine.registry()
    from codemodder.registry import DEFAULT_EXCLUDED_CODEMODS

    seq = [c.id for c in reg.codemods if c.origin == "pixee" and c.id not in DEFAULT_EXCLUDED_CODEMODS]
    files = []
    ids = [c for c in seq if h.get(c, {}).get("seeds")]
    for k in range(3):
        parts = []
        for j, cid in enumerate(ids[(i * 7 + k * 5) % len(ids):][:6]):
            s = h[cid]["seeds"]
            parts.append({"code": s[(i + k) % len(s)], "results": None, "ops": [["wrap", "def"]]})
        files.append({"codemod": seq[0], "parts": parts, "file_ops": []})
    return {"sequence": seq, "files": files, "manifest": ["requirements.txt", "lf"]}


def run_shard(spec):
    stats = core.Stats()
    if spec["kind"] == "default":
        eval_history(default_history(spec["i"]), stats)
        stats.labels["whole-default-set"] += 1
    else:
        core.drive(history(), lambda c: eval_history(c, stats), spec["n"], spec["seed"])
    return stats


def replay(case):
    return eval_history(case["history"])
