"""C16 -- hardening codemods make only their documented edit."""
from __future__ import annotations

import ast
import collections
import difflib
import io
import json
import tokenize

from hypothesis import strategies as st

from .. import core, engine, harvest, progspace, runner

ID = "C16"
LEVEL = "exploration"
TECHNIQUE = "metamorphic generated search: the NAME/NUMBER/STRING token delta a hardening codemod makes on a variant (extra/reordered arguments, star-args, nested and repeated sites, layouts, unrelated code) must stay inside the delta it makes on the untransformed trigger, which the repository's unit tests and docs pin; tokens outside that delta may be neither deleted nor inserted nor moved"
RULE = (
    "for the 22 hardening codemods (requests-verify, add-requests-timeouts, harden-pyyaml, harden-ruamel, jwt-decode-verify, enable-jinja2-autoescape, safe-lxml-parser-defaults, "
    "safe-lxml-parsing, secure-random, secure-flask-cookie, subprocess-shell-false, sandbox-process-creation, url-sandbox, use-defusedxml, harden-pickle-load, https-connection, "
    "upgrade-sslcontext-tls, upgrade-sslcontext-minimum-version, limit-readline, timezone-aware-datetime, django-json-response-type, fix-math-isclose): the documented delta of "
    "a trigger = multiset difference of its NAME/NUMBER/STRING tokens (strings by value) before/after the run on the bare harvested trigger.  Variants add positional/keyword/star "
    "arguments and trailing commas, nest the site in an argument of itself, repeat it on one line, wrap it in def/method/if/try/with/..., add comments, non-ASCII text, tabs, CRLF, "
    "multi-line layouts, duplicate imports and 1-3 sites per file.  Oracle: (1) tokens added/removed in the whole file lie in the support of the trigger's delta; (2) in the non-import "
    "lines a token outside that delta is neither deleted nor inserted (difflib on the token sequence: a reordered argument shows up as delete+insert).  Non-trivial = the site was "
    "rewritten and the variant carries at least one extra argument / nested or repeated site / second site; distinct = distinct (codemod, input bytes)."
)
ASSUMPTIONS = [
    "the documented delta is taken operationally from the run on the untransformed trigger, whose exact output the repository's unit tests pin (cross-checked by hand against core_codemods/docs for DESIGN.md appendix A)",
    "comments and whitespace inside a rewritten call are not part of the statement; operators/parentheses are not counted",
    "import statements are excluded from the token comparison (adding/replacing the import is part of every documented edit; dropped bindings are C02's business)",
    "for harden-pyyaml an added positional/star argument is the Loader itself (yaml.load(stream, Loader)) and is excluded",
    "the import-alias transformation is not used here (it renames the very token the delta removes)",
]

HARDENING = [
    "requests-verify", "add-requests-timeouts", "harden-pyyaml", "harden-ruamel", "jwt-decode-verify", "enable-jinja2-autoescape", "safe-lxml-parser-defaults", "safe-lxml-parsing",
    "secure-random", "secure-flask-cookie", "subprocess-shell-false", "sandbox-process-creation", "url-sandbox", "use-defusedxml", "harden-pickle-load", "https-connection",
    "upgrade-sslcontext-tls", "upgrade-sslcontext-minimum-version", "limit-readline", "timezone-aware-datetime", "django-json-response-type", "fix-math-isclose",
]


def hardening_ids():
    return ["pixee:python/" + n for n in HARDENING]


def tokens(src: str, skip_imports=False):
    """NAME / NUMBER / STRING tokens (strings normalised to their value)."""
    out = []
    try:
        toks = list(tokenize.generate_tokens(io.StringIO(src).readline))
    except (tokenize.TokenError, IndentationError, SyntaxError):
        return None
    import_lines = set()
    if skip_imports:
        try:
            for n in ast.walk(ast.parse(src)):
                if isinstance(n, (ast.Import, ast.ImportFrom)):
                    import_lines |= set(range(n.lineno, n.end_lineno + 1))
        except SyntaxError:
            pass
    for t in toks:
        if t.start[0] in import_lines:
            continue
        if t.type == tokenize.NAME or t.type == tokenize.NUMBER:
            out.append(t.string)
        elif t.type == tokenize.STRING:
            try:
                out.append("str:" + repr(ast.literal_eval(t.string)))
            except Exception:
                out.append("str:" + t.string)
    return out


def delta(before: str, after: str):
    # import statements are compared by C02 (bindings) and are the documented "import this requires": the token
    # delta is taken over everything else
    tb, ta = tokens(before, True), tokens(after, True)
    if tb is None or ta is None:
        return None
    cb, ca = collections.Counter(tb), collections.Counter(ta)
    return ca - cb, cb - ca


def moved_or_touched(before: str, after: str):
    """Tokens deleted and inserted in the non-import part, from a sequence alignment."""
    tb, ta = tokens(before, True), tokens(after, True)
    if tb is None or ta is None:
        return None
    sm = difflib.SequenceMatcher(a=tb, b=ta, autojunk=False)
    deleted, inserted = collections.Counter(), collections.Counter()
    for tag, i1, i2, j1, j2 in sm.get_opcodes():
        if tag in ("replace", "delete"):
            deleted.update(tb[i1:i2])
        if tag in ("replace", "insert"):
            inserted.update(ta[j1:j2])
    return deleted, inserted


def base_deltas(cid, stats):
    """Documented delta per trigger: run the bare seeds."""
    seeds = harvest.harvest().get(cid, {}).get("seeds", [])
    rendered = [(c, progspace.render(c, "code.py")) for c in ({"codemod": cid, "parts": [{"code": s, "results": None, "ops": []}], "file_ops": []} for s in seeds)]
    out = {}
    for i in range(0, len(rendered), 50):
        obs = engine.run_batch([cid], rendered[i:i + 50])
        if obs.res.exit != 0:
            stats.discard("calibration-run-failed")
            continue
        for f in obs.files:
            if f.after is None or not f.changed:
                continue
            try:
                d = delta(f.before.decode("utf-8-sig"), f.after.decode("utf-8-sig"))
            except UnicodeDecodeError:
                d = None
            if d:
                out[f.case["parts"][0]["code"]] = {"added": dict(d[0]), "removed": dict(d[1])}
    return out


EXTRA_LABELS = ("op:kwcall", "op:dictsplat", "op:addarg", "op:nest", "op:sameline", "op:quote", "op:breakattr", "op:nonascii", "op:tuplerhs")


def judge(cid, f, deltas, stats):
    case = f.case
    feats = sorted(set(l for l in f.labels if l.startswith(("op:", "fop:"))))
    labels = ["codemod:" + cid] + f.labels
    key = [cid, core.sha(f.before)]
    if f.after is None or not f.changed:
        stats.case(key, False, labels)
        return
    allowed_add, allowed_rem = set(), set()
    max_add, max_rem = collections.Counter(), collections.Counter()
    for part in case["parts"]:
        d = deltas.get(part["code"] if part["code"].endswith("\n") else part["code"] + "\n") or deltas.get(part["code"])
        if d is None:
            stats.case(key, False, labels + ["no-base-delta"])
            return
        allowed_add |= set(d["added"])
        allowed_rem |= set(d["removed"])
        # each `sameline` / `nest` op doubles the number of sites of the copy at most
        sites = 2 ** sum(1 for o in part["ops"] if o and o[0] in ("sameline", "nest"))
        for t, n in d["added"].items():
            max_add[t] += n * sites
        for t, n in d["removed"].items():
            max_rem[t] += n * sites
    try:
        before, after = f.before.decode("utf-8-sig"), f.after.decode("utf-8-sig")
    except UnicodeDecodeError:
        return
    d = delta(before, after)
    mv = True
    if d is None or tokens(before, True) is None or tokens(after, True) is None:
        stats.discard("untokenizable")
        return
    interesting = len(case["parts"]) > 1 or any(l in EXTRA_LABELS for l in feats)
    stats.case(key, interesting, labels + ["rewritten"], sample={"codemod": cid, "labels": f.labels, "before": before[:600], "after": after[:600], "documented_delta": {"added": sorted(allowed_add), "removed": sorted(allowed_rem)}})
    added, removed = d
    bad_add = sorted(t for t in added if t not in allowed_add)
    bad_rem = sorted(t for t in removed if t not in allowed_rem)
    det = {"documented_added": sorted(allowed_add), "documented_removed": sorted(allowed_rem), "before": before, "after": after}
    # an unrelated nested call that happens to use the same keyword names (generated by the `kwcall` op) must
    # come through verbatim
    import re

    others_b = collections.Counter(re.findall(r"_other\([^()]*\)", before))
    others_a = collections.Counter(re.findall(r"_other\([^()]*\)", after))
    if others_b - others_a:
        stats.violation(cid, "unrelated-nested-call-with-same-keyword-changed", {"program": case}, json.dumps({"changed": sorted((others_b - others_a)), **det})[:7000], features=feats)
    if bad_add:
        stats.violation(cid, "token-added-outside-documented-delta", {"program": case}, json.dumps({"tokens": bad_add, **det})[:7000], features=feats)
    if bad_rem:
        stats.violation(cid, "token-lost-outside-documented-delta", {"program": case}, json.dumps({"tokens": bad_rem, **det})[:7000], features=feats)
    # order: with the delta's tokens removed on both sides, the remaining (non-import) token sequences must be equal
    allowed = allowed_add | allowed_rem
    seq_b = [t for t in tokens(before, True) if t not in allowed]
    seq_a = [t for t in tokens(after, True) if t not in allowed]
    if seq_b != seq_a and not bad_add and not bad_rem:
        k = next((i for i, (x, y) in enumerate(zip(seq_b, seq_a)) if x != y), min(len(seq_b), len(seq_a)))
        stats.violation(cid, "token-outside-delta-moved", {"program": case}, json.dumps({"first_difference": {"before": seq_b[k:k + 6], "after": seq_a[k:k + 6]}, **det})[:7000], features=feats)


def no_alias(case):
    ops = [o for p in case["parts"] for o in p["ops"] if o]
    if any(o[0] == "alias" for o in ops):
        return False
    # yaml.load(stream, Loader): an added *positional* argument is the loader value itself, which the codemod replaces
    if case["codemod"].endswith("/harden-pyyaml") and any(o[0] == "addarg" and o[2] in ("pos", "star") for o in ops):
        return False
    return True


BUDGET = {"quick": {"n": 3, "batch": 16, "rotate": 5}, "thorough": {"n": 20, "batch": 24, "rotate": 1}}


def shards(tier, seed):
    import os

    b = BUDGET[tier]
    ids = hardening_ids()
    only = os.environ.get("CMV_ONLY")
    if only:
        ids = [c for c in ids if only in c]
    buckets = [[] for _ in range(16)]
    for i, c in enumerate(ids):
        buckets[i % 16].append(c)
    return [{"codemods": bk, "seed": seed * 1000 + i, **b} for i, bk in enumerate(buckets) if bk]


def run_shard(spec):
    stats = core.Stats()
    for cid in spec["codemods"]:
        deltas = base_deltas(cid, stats)
        stats.labels["triggers-with-documented-delta:" + cid] += len(deltas)
        good = list(deltas)
        if not good:
            stats.discard("no-trigger:" + cid)
            continue

        def handle(rendered, cid=cid):
            rendered = [(c, rd) for c, rd in rendered if no_alias(c)]
            if not rendered:
                return
            obs = engine.run_batch([cid], rendered)
            if obs.res.exit != 0 or obs.res.report is None:
                stats.discard(f"run-exit-{obs.res.exit}")
                return
            for f in obs.files:
                judge(cid, f, deltas, stats)

        seen, chunk = set(), []
        for c in engine.sweep_cases(cid, good, None, spec["rotate"], spec["seed"] // 1000):
            rd = progspace.render(c, "code.py")
            h = core.sha(rd["data"])
            if rd["level"] == 0 or h in seen:
                continue
            seen.add(h)
            chunk.append((c, rd))
            if len(chunk) == 60:
                handle(chunk)
                chunk = []
        if chunk:
            handle(chunk)
        strat = st.lists(progspace.program_case(cid, good, None, max_parts=3), min_size=spec["batch"], max_size=spec["batch"])
        core.drive(strat, lambda cases: handle([(c, rd) for c in cases for rd in [progspace.render(c, "code.py")] if rd["level"]]), spec["n"], spec["seed"] + engine.hash_str(cid) % 997)
    return stats


def replay(case):
    prog = case["program"]
    cid = prog["codemod"]
    st_ = core.Stats()
    deltas = base_deltas(cid, st_)
    obs = engine.run_batch([cid], [(prog, progspace.render(prog, "code.py"))])
    if obs.res.exit != 0:
        raise core.HarnessError("replay run failed")
    for f in obs.files:
        judge(cid, f, deltas, st_)
    return st_.violations


def minimise(case, kind=None):
    from . import _prog as P

    orig = P.replay_program
    try:
        P.replay_program = lambda c, j, e=(): replay(c)
        return P.minimise_program(case, None, kind)
    finally:
        P.replay_program = orig
