"""C20 -- the exit status tells the caller what happened.

argv vectors are generated from the option grammar of cli.parse_args together with the state of
the world they refer to (directory, result files, AI-client environment, output path kind); the
forked child's real exit status is compared with a reference decision list written from the
statement.  Second clause: a non-zero status is never returned for a run whose report was written.
"""
from __future__ import annotations

import json
import os

from hypothesis import strategies as st

from .. import core, runner

ID = "C20"
LEVEL = "exploration"
TECHNIQUE = "Hypothesis-generated argv/environment vectors vs. a reference decision list for the exit status (fork-isolated real CLI runs)"
RULE = (
    "Hypothesis draws a scenario = (directory exists/missing) x option list from the grammar (valid options in any order, repeated options, "
    "unknown option, ambiguous abbreviation, missing operand, bad choice/type, include+exclude conflict, extra/missing positional, "
    "--help/--list/--describe/--version at any position) x result files per tool option (present/missing, two SARIF files of one tool, "
    "two tools) x AI environment (unset, consistent, key-only, endpoint-only for Azure OpenAI and Azure Llama) x output kind (none, file, "
    "existing file, directory, missing parent, path through a regular file, /dev/full); status must equal the documented one.  "
    "Non-trivial = at least one non-default condition (error, info action, missing input, AI env, unwritable output); distinct = distinct scenario."
)
ASSUMPTIONS = [
    "when an informational action and an argument error are both present, 0 or 3 is accepted (the statement gives no order); when a status-1 condition and an inconsistent AI configuration coincide, 1 or 3 is accepted",
    "argument errors are decided before anything else (nothing can be looked up before the arguments are parsed)",
    "the sandbox runs as root, so 'read-only' outputs are represented by a directory, a missing parent, a path through a regular file and /dev/full (EACCES is unreachable)",
    "OpenAI/AzureOpenAI client construction fails in this environment (openai/httpx version mismatch: TypeError 'proxies', also fails 4 baseline tests), so fully configured OpenAI clients are not generated; consistent Azure Llama configuration is",
    "an AI variable that is exported but empty does not count as set (key + empty endpoint is an inconsistent configuration; both empty is consistent)",
    "malformed result documents are generated with no expected status (not specified by the statement); only the 'non-zero => report not written' clause is checked for them",
]

CODEMOD = "pixee:python/use-set-literal"

SARIF = {
    "semgrep": {"version": "2.1.0", "runs": [{"tool": {"driver": {"name": "Semgrep OSS", "rules": []}}, "results": []}]},
    "codeql": {"version": "2.1.0", "runs": [{"tool": {"driver": {"name": "CodeQL", "rules": []}}, "results": []}]},
}

INFO = ["--help", "-h", "--list", "--describe", "--version"]


@st.composite
def scenario(draw):
    sc = {"level": "cli"}
    sc["directory"] = draw(st.sampled_from(["ok"] * 5 + ["missing"]))
    opts = []  # list of [kind, ...]
    # benign options
    for o in draw(st.lists(st.sampled_from([
        ["--dry-run"], ["--no-dry-run"], ["--verbose"], ["--no-verbose"], ["--log-format", "json"], ["--log-format", "human"],
        ["--project-name", "proj"], ["--max-workers", "2"], ["--output-format", "codetf"], ["--output-format", "diff"],
        ["--path-include", "*.py"], ["--path-exclude", "tests/*"], ["--path-exclude", "a.py:1"],
    ]), max_size=4)):
        opts.append(["ok"] + o)
    # codemod selection
    sel = draw(st.sampled_from(["include"] * 12 + ["exclude", "conflict", "include-twice", "unknown-id"]))
    sc["selection"] = sel
    # errors
    err = draw(st.sampled_from([None] * 24 + ["unknown-option", "ambiguous-abbrev", "missing-operand", "bad-choice", "bad-type", "extra-positional", "missing-positional", "bad-choice-log"]))
    sc["error"] = err
    info = draw(st.sampled_from([None] * 20 + INFO))
    sc["info"] = info
    # result files
    rf = {}
    for opt in ("sonar_issues", "sonar_hotspots", "defectdojo"):
        rf[opt] = draw(st.lists(st.sampled_from(["ok", "ok", "missing", "malformed"]), max_size=2)) if draw(st.integers(0, 3)) == 0 else []
    rf["sarif"] = draw(st.sampled_from([[]] * 6 + [["semgrep"], ["codeql"], ["semgrep", "codeql"], ["semgrep", "semgrep"], ["codeql", "semgrep", "codeql"], ["missing"], ["semgrep", "missing"], ["malformed"]]))
    sc["results"] = rf
    sc["ai"] = {
        "azure_openai": draw(st.sampled_from(["none"] * 6 + ["key-only", "endpoint-only", "key+empty-endpoint", "endpoint+empty-key", "both-empty"])),
        "llama": draw(st.sampled_from(["none"] * 6 + ["both", "key-only", "endpoint-only", "key+empty-endpoint", "endpoint+empty-key", "both-empty"])),
    }
    # a plain OpenAI key next to a half-set Azure OpenAI pair does not make the configuration consistent: still status 3
    # (only drawn with a half-set pair: on its own the key makes the run construct a network client, outside this property)
    sc["ai"]["openai_key"] = draw(st.sampled_from(["none", "set", "set", "empty"]))
    sc["output"] = draw(st.sampled_from(["file", "file", "file", "none", "existing", "directory", "missing-parent", "through-file", "devfull"]))
    sc["output_twice"] = draw(st.integers(0, 7)) == 0
    sc["opts"] = opts
    sc["order_seed"] = draw(st.integers(0, 10**6))
    # a source file whose name is not valid UTF-8 (legal on Linux) and which the selected codemod changes: its path
    # cannot be encoded in the JSON report, so the report cannot be written
    sc["badname"] = draw(st.integers(0, 5)) == 0
    return sc


def build(sc, sd):
    """Materialise the scenario under sd; returns (argv, env, expectations dict)."""
    import random

    rnd = random.Random(sc["order_seed"])  # deterministic function of the drawn case
    proj = sd / "proj"
    runner.write_tree(proj, {"a.py": "x = set([1, 2])\n", "sub/b.py": "y = 1\n"})
    if sc.get("badname"):
        with open(os.path.join(os.fsencode(str(proj)), b"caf\xe9.py"), "wb") as fh:
            fh.write(b"z = set([3, 4])\n")
    directory = str(proj) if sc["directory"] == "ok" else str(sd / "nope")
    groups = []  # each group = list of tokens that must stay adjacent
    for o in sc["opts"]:
        groups.append(o[1:])
    sel = sc["selection"]
    if sel == "include":
        groups.append(["--codemod-include", CODEMOD])
    elif sel == "exclude":
        groups.append(["--codemod-exclude", "pixee:python/*,sonar:*,semgrep:*,defectdojo:*"])
    elif sel == "conflict":
        groups.append(["--codemod-include", CODEMOD])
        groups.append(["--codemod-exclude", "pixee:python/secure-random"])
    elif sel == "include-twice":
        groups.append(["--codemod-include", "pixee:python/secure-random"])
        groups.append(["--codemod-include", CODEMOD])
    elif sel == "unknown-id":
        groups.append(["--codemod-include", CODEMOD + ",pixee:python/nonexistent"])
    missing_input = False
    dup_sarif = False
    malformed = False

    def mk(kind, name, good):
        nonlocal missing_input, malformed
        p = sd / name
        if kind == "missing":
            missing_input = True
            return str(sd / ("absent-" + name))
        if kind == "malformed":
            malformed = True
            p.write_text('{"issues": [')
            return str(p)
        p.write_text(json.dumps(good))
        return str(p)

    rf = sc["results"]
    if rf["sonar_issues"]:
        groups.append(["--sonar-issues-json", ",".join(mk(k, f"si{i}.json", {"issues": []}) for i, k in enumerate(rf["sonar_issues"]))])
    if rf["sonar_hotspots"]:
        groups.append(["--sonar-hotspots-json", ",".join(mk(k, f"sh{i}.json", {"hotspots": []}) for i, k in enumerate(rf["sonar_hotspots"]))])
    if rf["defectdojo"]:
        groups.append(["--defectdojo-findings-json", ",".join(mk(k, f"dd{i}.json", {"results": []}) for i, k in enumerate(rf["defectdojo"]))])
    if rf["sarif"]:
        names = []
        seen = set()
        for i, k in enumerate(rf["sarif"]):
            if k in SARIF:
                if k in seen:
                    dup_sarif = True
                seen.add(k)
                names.append(mk("ok", f"s{i}.sarif", SARIF[k]))
            else:
                names.append(mk(k, f"s{i}.sarif", None))
        groups.append(["--sarif", ",".join(names)])
    # output
    out = sc["output"]
    out_path = None
    if out == "file":
        out_path = sd / "out" / ".." / "report.codetf"
        (sd / "out").mkdir()
        out_path = sd / "report.codetf"
    elif out == "existing":
        out_path = sd / "report.codetf"
        out_path.write_text("OLD CONTENT")
    elif out == "directory":
        out_path = sd / "outdir"
        out_path.mkdir()
    elif out == "missing-parent":
        out_path = sd / "no" / "such" / "report.codetf"
    elif out == "through-file":
        (sd / "plain.txt").write_text("x")
        out_path = sd / "plain.txt" / "report.codetf"
    elif out == "devfull":
        # reached through a symlink in the scratch directory: a (mutated) implementation that renames a
        # temporary file over the output path must not be able to replace the device node itself
        out_path = sd / "full-link"
        os.symlink("/dev/full", out_path)
    if out_path is not None:
        if sc["output_twice"]:
            groups.append(["--output", str(sd / "first.codetf")])
        groups.append(["--output", str(out_path)])
    rnd.shuffle(groups)
    # keep a repeated --output in its relative order (last one wins): re-sort those two
    outs = [i for i, g in enumerate(groups) if g[0] == "--output"]
    if len(outs) == 2 and groups[outs[0]][1] != str(sd / "first.codetf"):
        groups[outs[0]], groups[outs[1]] = groups[outs[1]], groups[outs[0]]
    # positional
    pos_at = rnd.randint(0, len(groups))
    err = sc["error"]
    if err != "missing-positional":
        groups.insert(pos_at, [directory])
    if err == "unknown-option":
        groups.insert(rnd.randint(0, len(groups)), ["--bogus-option"])
    elif err == "ambiguous-abbrev":
        groups.insert(rnd.randint(0, len(groups)), ["--o", "x"])
    elif err == "missing-operand":
        groups.append([rnd.choice(["--output", "--codemod-include", "--max-workers", "--sarif"])])
    elif err == "bad-choice":
        groups.insert(rnd.randint(0, len(groups)), ["--output-format", "xml"])
    elif err == "bad-choice-log":
        groups.insert(rnd.randint(0, len(groups)), ["--log-format", "yaml"])
    elif err == "bad-type":
        groups.insert(rnd.randint(0, len(groups)), ["--max-workers", "many"])
    elif err == "extra-positional":
        groups.insert(rnd.randint(0, len(groups)), ["another-dir"])
    if sc["info"]:
        groups.insert(rnd.randint(0, len(groups)), [sc["info"]])
    argv = [t for g in groups for t in g]
    env = {}
    ai = sc["ai"]
    for fam, prefix in (("azure_openai", "CODEMODDER_AZURE_OPENAI"), ("llama", "CODEMODDER_AZURE_LLAMA")):
        m = ai[fam]
        if m in ("both", "key-only", "key+empty-endpoint"):
            env[prefix + "_API_KEY"] = "k"
        if m in ("both", "endpoint-only", "endpoint+empty-key"):
            env[prefix + "_ENDPOINT"] = "https://example.invalid"
        if m in ("key+empty-endpoint", "both-empty"):
            env[prefix + "_ENDPOINT"] = ""  # exported but empty (an undefined CI secret): not a usable value
        if m in ("endpoint+empty-key", "both-empty"):
            env[prefix + "_API_KEY"] = ""
    if ai.get("openai_key", "none") != "none" and ai["azure_openai"] in ("key-only", "endpoint-only", "key+empty-endpoint", "endpoint+empty-key"):
        env["CODEMODDER_OPENAI_API_KEY"] = "sk-k" if ai["openai_key"] == "set" else ""
    facts = dict(
        arg_error=bool(err) or sel == "conflict",
        info=bool(sc["info"]),
        dir_missing=sc["directory"] != "ok",
        missing_input=missing_input,
        dup_sarif=dup_sarif,
        malformed=malformed,
        ai_bad=ai["azure_openai"] not in ("none", "both-empty") or ai["llama"] in ("key-only", "endpoint-only", "key+empty-endpoint", "endpoint+empty-key"),
        out_unwritable=out in ("directory", "missing-parent", "through-file", "devfull"),
        # the report names a changed file whose path cannot be encoded (only when the trigger codemod runs)
        # (a repeated --codemod-include keeps the last value: the trigger codemod must be in that one)
        report_unencodable=bool(sc.get("badname")) and CODEMOD in ([argv[i + 1] for i, t in enumerate(argv[:-1]) if t == "--codemod-include"] or [""])[-1].split(","),
        out_path=str(out_path) if out_path is not None else None,
        out_kind=out,
        openai_key_with_half_azure="CODEMODDER_OPENAI_API_KEY" in env,
    )
    return argv, env, facts


def expected_statuses(f):
    """Reference decision list (statement order); returns a set of acceptable statuses or None = unspecified."""
    if f["arg_error"] and f["info"]:
        return {0, 3}
    if f["arg_error"]:
        return {3}
    if f["info"]:
        return {0}
    one = f["dir_missing"] or f["missing_input"] or f["dup_sarif"]
    if f["malformed"]:
        return None
    if one and f["ai_bad"]:
        return {1, 3}
    if one:
        return {1}
    if f["ai_bad"]:
        return {3}
    if f["out_path"] is not None and (f["out_unwritable"] or f.get("report_unencodable")):
        return {2}
    return {0}


def _is_report(data: bytes) -> bool:
    try:
        doc = json.loads(data)
    except ValueError:
        return False
    return isinstance(doc, dict) and "results" in doc


def eval_case(sc, stats=None):
    vs = []
    with runner.scratch("c20") as sd:
        argv, env, f = build(sc, sd)
        before = None
        op = f["out_path"]
        devfull = f["out_kind"] == "devfull"
        if op and not devfull and os.path.isfile(op):
            before = open(op, "rb").read()
        res = runner.run_cli(argv, cwd=str(sd), env=env, timeout=600)
        exp = expected_statuses(f)
        feats = sorted(k for k, v in f.items() if v is True)
        detail = json.dumps({"argv": argv, "env": env, "exit": res.exit, "expected": sorted(exp) if exp else None, "facts": f, "stderr": res.stderr[-600:]})
        if res.timed_out:
            raise core.HarnessError("C20 run timed out: " + detail[:500])
        if exp is not None and res.exit not in exp:
            vs.append(dict(component="cli", kind=f"status-{res.exit}-expected-{'/'.join(map(str, sorted(exp)))}", features=feats, case=sc, detail=detail))
        # clause 2: non-zero => the report was not written
        written = False
        if op and not devfull:
            if os.path.isfile(op):
                now = open(op, "rb").read()
                # "written" = the path now holds a (new) report document; an empty or truncated file left behind by a
                # failed write is not a report
                written = now != before and _is_report(now)
        elif op and devfull and not os.path.islink(op) and os.path.isfile(op):
            written = True  # the symlink was replaced by a regular report file
        if res.exit != 0 and written:
            vs.append(dict(component="cli", kind="nonzero-but-report-written", features=feats, case=sc, detail=detail))
        # completed run with a writable output must have produced a parseable report
        if exp == {0} and res.exit == 0 and not f["info"] and op and not f["out_unwritable"]:
            try:
                json.loads(open(op, "rb").read().decode("utf-8"))
            except Exception as e:
                vs.append(dict(component="cli", kind="status-0-but-no-report", features=feats, case=sc, detail=detail + f" {e}"))
    if stats is not None:
        nontriv = any(f[k] for k in ("arg_error", "info", "dir_missing", "missing_input", "dup_sarif", "ai_bad", "out_unwritable", "malformed"))
        labels = ["exp:" + ("/".join(map(str, sorted(exp))) if exp else "unspecified"), "out:" + f["out_kind"]] + ["f:" + k for k in feats]
        if sc["error"]:
            labels.append("err:" + sc["error"])
        if sc["info"]:
            labels.append("info:" + sc["info"])
        stats.case(sc, nontriv, labels, sample={"argv": [a.replace(str(sd), "$S") for a in argv], "env": env, "exit": res.exit, "expected": sorted(exp) if exp else None})
        for v in vs:
            stats.violation(**v)
    return vs


def eval_subprocess(sc, stats):
    """Fidelity cross-check: the same scenario through the installed console script must give the same status."""
    with runner.scratch("c20s") as sd:
        argv, env, f = build(sc, sd)
        a = runner.run_cli(argv, cwd=str(sd), env=env, timeout=600)
    with runner.scratch("c20s") as sd2:
        argv2, env2, f2 = build(sc, sd2)
        full_env = {k: None for k in os.environ if k.startswith("CODEMODDER_")}
        full_env.update(env2)
        b = runner.run_subprocess(argv2, cwd=str(sd2), env=full_env)
    stats.labels["subprocess-crosscheck"] += 1
    if a.exit != b.exit:
        stats.error(f"forked child and console script disagree: {a.exit} vs {b.exit} for {argv}")


BUDGET = {"quick": {"n": 60, "sub": 0}, "thorough": {"n": 800, "sub": 3}}


def shards(tier, seed):
    b = BUDGET[tier]
    return [{"n": b["n"], "sub": b["sub"], "seed": seed * 1000 + i} for i in range(16)]


def run_shard(spec):
    stats = core.Stats()
    cases = []

    def fn(c):
        eval_case(c, stats)
        if len(cases) < spec["sub"]:
            cases.append(c)

    core.drive(scenario(), fn, spec["n"], spec["seed"])
    for c in cases:
        eval_subprocess(c, stats)
    return stats


def replay(case):
    return eval_case(case)
