"""C15 -- the CodeTF report is always well-formed, complete and internally consistent."""
from __future__ import annotations

import json
import os
from pathlib import Path

from hypothesis import strategies as st

from .. import core, engine, harvest, progspace, runner, udiff

ID = "C15"
LEVEL = "exploration"
TECHNIQUE = "Hypothesis-generated run shapes through the real CLI; validity predicate = hand-written JSON Schema (jsonschema) + structural invariants relating the report to the run, the registry and the tree snapshots"
RULE = (
    "Hypothesis draws run shapes: 0-4 codemods (detector-less, rule-detected, SAST of each tool, unknown id => zero codemods) x 0-4 generated programs "
    "(program space of C01) x extras (undecodable file, syntax-error file, empty .py, only non-Python files, empty directory, non-ASCII/astral file names "
    "and content, dependency manifest) x --dry-run x directory spelling (absolute, relative, './x', 'x/').  For every run that exits 0 with --output: "
    "schema(report) and invariants: one result per executed codemod in execution order with id/summary/description/references of the registry; each "
    "changeset names an existing project-relative regular file, has a non-empty diff and >=1 change with non-empty description and 1 <= lineNumber <= "
    "number of lines of the file (before or after); failed and changed files disjoint per codemod; SAST results carry detectionTool and rule/finding ids "
    "within the codemod's declared rules.  Non-trivial = report with >=1 changeset; distinct = distinct run shape."
)
ASSUMPTIONS = [
    "the official CodeTF schema is fetched from the network by tests/test_codetf.py and is unavailable offline; the schema used here is hand-written from the pydantic models and the statement",
    "'a line number inside the file' is accepted in original or new numbering: 1 <= n <= max(lines before, lines after)",
    "summary/description/references are compared with what the registry's codemod defines (pixee:python/order-imports ships an empty description document; an empty description is then what the report must carry)",
    "failedFiles are compared after resolving against the working directory (the statement does not say how they are spelled)",
]

SCHEMA = {
    "type": "object",
    "required": ["run", "results"],
    "additionalProperties": False,
    "properties": {
        "run": {
            "type": "object",
            "required": ["vendor", "tool", "version", "commandLine", "directory"],
            "additionalProperties": False,
            "properties": {
                "vendor": {"type": "string", "minLength": 1},
                "tool": {"type": "string", "minLength": 1},
                "version": {"type": "string", "minLength": 1},
                "projectName": {"type": "string"},
                "commandLine": {"type": "string", "minLength": 1},
                "elapsed": {"type": "integer", "minimum": 0},
                "directory": {"type": "string", "minLength": 1},
                "sarifs": {"type": "array", "items": {"type": "object", "required": ["artifact", "sha1"]}},
            },
        },
        "results": {
            "type": "array",
            "items": {
                "type": "object",
                "required": ["codemod", "summary", "description", "changeset"],
                "additionalProperties": False,
                "properties": {
                    "codemod": {"type": "string", "pattern": "^[a-z0-9-]+:[a-z]+/[a-z0-9-]+$"},
                    "summary": {"type": "string", "minLength": 1},
                    "description": {"type": "string"},
                    "detectionTool": {"type": "object", "required": ["name"], "additionalProperties": False, "properties": {"name": {"type": "string", "minLength": 1}}},
                    "references": {
                        "type": "array",
                        "items": {"type": "object", "required": ["url", "description"], "additionalProperties": False,
                                  "properties": {"url": {"type": "string", "minLength": 1}, "description": {"type": "string", "minLength": 1}}},
                    },
                    "properties": {"type": "object"},
                    "failedFiles": {"type": "array", "items": {"type": "string", "minLength": 1}},
                    "changeset": {
                        "type": "array",
                        "items": {
                            "type": "object",
                            "required": ["path", "diff", "changes"],
                            "additionalProperties": False,
                            "properties": {
                                "path": {"type": "string", "minLength": 1},
                                "diff": {"type": "string", "minLength": 1},
                                "ai": {"type": "object"},
                                "changes": {
                                    "type": "array",
                                    "minItems": 1,
                                    "items": {
                                        "type": "object",
                                        "required": ["lineNumber", "description"],
                                        "additionalProperties": False,
                                        "properties": {
                                            "lineNumber": {"type": "integer", "minimum": 1},
                                            "description": {"type": "string", "minLength": 1},
                                            "diffSide": {"enum": ["left", "right"]},
                                            "properties": {"type": "object"},
                                            "packageActions": {"type": "array", "items": {"type": "object", "required": ["action", "result", "package"],
                                                                                           "properties": {"action": {"enum": ["add", "remove"]}, "result": {"enum": ["completed", "failed", "skipped"]}, "package": {"type": "string", "minLength": 1}}}},
                                            "findings": {"type": "array", "items": {"$ref": "#/$defs/finding"}},
                                        },
                                    },
                                },
                            },
                        },
                    },
                    "unfixedFindings": {
                        "type": "array",
                        "items": {"allOf": [{"$ref": "#/$defs/finding"}, {"type": "object", "required": ["path", "reason"], "properties": {"path": {"type": "string", "minLength": 1}, "reason": {"type": "string", "minLength": 1}, "lineNumber": {"type": "integer", "minimum": 0}}}]},
                    },
                },
            },
        },
    },
    "$defs": {
        "finding": {
            "type": "object",
            "required": ["id", "rule"],
            "properties": {
                "id": {"type": "string", "minLength": 1},
                "rule": {"type": "object", "required": ["id", "name"], "properties": {"id": {"type": "string", "minLength": 1}, "name": {"type": "string", "minLength": 1}, "url": {"type": "string"}}},
            },
        }
    },
}

DEP_ADDERS = ["pixee:python/use-defusedxml", "pixee:python/harden-pickle-load", "pixee:python/flask-enable-csrf-protection"]
DEP_MANIFESTS = {
    "requirements.txt": "requests==2.31.0\n# pinned\nflask>=2.0\n",
    "pyproject.toml": '[project]\nname = "demo"\nversion = "0.1"\ndependencies = [\n    "requests>=2",\n]\n\n[tool.black]\nline-length = 100\n',
    "setup.py": 'from setuptools import setup\n\nsetup(\n    name="demo",\n    version="0.1",\n    install_requires=[\n        "requests>=2",\n    ],\n)\n',
    "setup.cfg": "[metadata]\nname = demo\n\n[options]\ninstall_requires =\n    requests>=2\n    flask\n\n[flake8]\nmax-line-length = 100\n",
}
NONASCII_NAMES = ["src/módulo_é.py", "src/日本.py", "src/emoji_😀.py"]


@st.composite
def run_shape(draw):
    cms = engine.all_codemods()
    plain = [c for c, k in cms if k == "plain"]
    rule = [c for c, k in cms if k == "rule"]
    sast = [c for c, k in cms if k == "sast"]
    mode = draw(st.sampled_from(["plain", "plain", "plain", "sast", "sast", "sast-same-name", "rule", "mixed", "unknown"]))
    if mode == "sast-same-name":
        # codemods of different origins that share a name (sonar:python/url-sandbox, semgrep:python/url-sandbox, ...)
        # selected in one run, each with its own tool's result file: every one of them is reported
        by_name = {}
        for c in sast + plain + rule:
            by_name.setdefault(c.split("/", 1)[1], []).append(c)
        groups = sorted(v for v in by_name.values() if len(v) >= 2 and sum(1 for c in v if c in sast and engine.seeds_for(c)[1]) >= 1)
        ids = list(draw(st.sampled_from(groups)))
        ids = list(draw(st.permutations(ids)))
    elif mode == "plain":
        ids = draw(st.lists(st.sampled_from(plain), min_size=1, max_size=4, unique=True))
    elif mode == "sast":
        tool = draw(st.sampled_from(["sonar", "semgrep", "defectdojo"]))
        ids = draw(st.lists(st.sampled_from([c for c in sast if c.startswith(tool)]), min_size=1, max_size=3, unique=True))
    elif mode == "rule":
        ids = draw(st.lists(st.sampled_from(rule), min_size=1, max_size=2, unique=True))
    elif mode == "mixed":
        ids = draw(st.lists(st.sampled_from(plain), min_size=1, max_size=2, unique=True)) + [draw(st.sampled_from(rule))]
    else:
        ids = ["pixee:python/does-not-exist"]
    files = []
    if mode != "unknown":
        for cid in draw(st.lists(st.sampled_from(ids), min_size=0, max_size=4)):
            seeds, sast_seeds = engine.seeds_for(cid)
            if seeds or sast_seeds:
                files.append(draw(progspace.program_case(cid, seeds, sast_seeds, max_parts=2)))
    extras = draw(st.lists(st.sampled_from(["bad-utf8", "syntax-error", "empty-py", "nonascii-path", "manifest", "nul-byte", "crlf-extra"]), max_size=3, unique=True))
    layout = draw(st.sampled_from(["normal"] * 6 + ["empty-dir", "non-py-only"]))
    # one run in three needs a dependency: a detector-less dependency-adding codemod with its trigger, and one manifest of
    # one of the four kinds at the project root or in a sub-directory (manifests are discovered with rglob); the manifest's
    # changeset is subject to the same rules as any other (existing project-relative path, faithful diff, line numbers)
    dep = None
    if mode in ("plain", "mixed") and draw(st.integers(0, 2)) == 0:
        dep = {"adder": draw(st.sampled_from(DEP_ADDERS)), "manifest": draw(st.sampled_from(sorted(DEP_MANIFESTS))), "where": draw(st.sampled_from(["", "", "deploy", "svc/api"]))}
        ids = [c for c in ids if c != dep["adder"]]
        ids.insert(draw(st.integers(0, len(ids))), dep["adder"])
    return {
        "dep": dep if layout == "normal" else None,
        "codemods": ids,
        "files": files if layout == "normal" else [],
        "extras": extras if layout == "normal" else [],
        "layout": layout,
        "dry": draw(st.booleans()),
        "dirstyle": draw(st.sampled_from(["abs", "abs", "rel", "dot", "slash"])),
        "verbose": draw(st.integers(0, 5)) == 0,
    }


def eval_shape(case, stats=None):
    st_ = stats or core.Stats()
    vs_before = len(st_.violations)
    with runner.scratch("c15") as root:
        rendered = []
        for fc in case["files"]:
            rd = progspace.render(fc, "code.py")
            if rd["level"]:
                rendered.append((fc, rd))
        extra_files = {}
        trig = "x = set([1, 2])\nimport random\nrandom.random()\n"
        if "bad-utf8" in case["extras"]:
            extra_files["src/bad_utf8.py"] = b"x = set([1])\n# \xff\xfe\n"
        if "syntax-error" in case["extras"]:
            extra_files["src/broken.py"] = "def f(:\n    x = set([1])\n"
        if "empty-py" in case["extras"]:
            extra_files["src/empty.py"] = ""
        if "nul-byte" in case["extras"]:
            extra_files["src/nul.py"] = b"x = set([1])\n\x00\n"
        if "nonascii-path" in case["extras"]:
            for n in NONASCII_NAMES:
                extra_files[n] = "# café 日本 😀\ns = 'é😀'\n" + trig
        if "crlf-extra" in case["extras"]:
            extra_files["src/crlf_extra.py"] = trig.replace("\n", "\r\n")
        if "manifest" in case["extras"]:
            extra_files["requirements.txt"] = "requests\n"
        if case.get("dep"):
            from . import c14

            dep = case["dep"]
            extra_files.pop("requirements.txt", None)
            extra_files["src/dep_app.py"] = c14.ADDERS[dep["adder"]][1]
            extra_files[os.path.join(dep["where"], dep["manifest"])] = DEP_MANIFESTS[dep["manifest"]]
        if case["layout"] == "non-py-only":
            extra_files = {"notes.txt": "x = set([1])\n", "data.json": "{}"}
        proj, rels, res_argv = engine.build_project(root, case["codemods"], rendered, extra_files)
        if case["layout"] == "empty-dir":
            import shutil

            shutil.rmtree(proj)
            proj.mkdir()
        elif case["layout"] == "non-py-only":
            for p in list(proj.rglob("*.py")):
                p.unlink()
        out = root / "out.codetf"
        d = {"abs": str(proj), "rel": "proj", "dot": "./proj", "slash": "proj/"}[case["dirstyle"]]
        argv = [d, "--output", str(out), "--codemod-include", ",".join(case["codemods"])] + res_argv
        if case["dry"]:
            argv.append("--dry-run")
        if case["verbose"]:
            argv.append("--verbose")
        before = runner.snapshot(proj)
        res = runner.run_cli(argv, cwd=str(root), output=out, timeout=900)
        after = runner.snapshot(proj)
        raw = res.report_raw
    labels = ["mode:" + ("unknown" if case["codemods"] == ["pixee:python/does-not-exist"] else "ok"), "layout:" + case["layout"], "dir:" + case["dirstyle"]] + ["extra:" + e for e in case["extras"]]
    labels += ["dry" if case["dry"] else "real", f"ncodemods={len(case['codemods'])}"]
    kinds = {engine.kind_of(engine.codemod_by_id(c)) for c in case["codemods"] if c in engine.registry()._codemods_by_id}
    labels += ["has:" + k for k in sorted(kinds)]
    comp = "report"
    feats = sorted(set(["extra:" + e for e in case["extras"]] + ["layout:" + case["layout"]] + (["dry"] if case["dry"] else [])))
    if case.get("dep"):
        labels += ["dep:" + case["dep"]["manifest"], "dep-where:" + (case["dep"]["where"] or "root")]
        feats = sorted(feats + ["dep:" + case["dep"]["manifest"], "dep-nested" if case["dep"]["where"] else "dep-root"])

    def viol(kind, detail, extra_feats=()):
        st_.violation(comp, kind, {"shape": case}, detail if isinstance(detail, str) else json.dumps(detail, default=str)[:4000], features=feats + list(extra_feats))

    if res.exit != 0:
        st_.discard(f"exit-{res.exit}")
        st_.case(case, False, labels + [f"exit-{res.exit}"])
        # "whenever --output is given and the run completes": a crash is not this property's business, but it is reported
        # to the evidence as a class so that it is visible
        return st_.violations[vs_before:]
    if raw is None:
        viol("no-report-written", {"argv": argv, "stderr": res.stderr[-500:]})
        st_.case(case, False, labels)
        return st_.violations[vs_before:]
    try:
        rep = json.loads(raw.decode("utf-8"))
    except Exception as e:
        viol("report-not-json", f"{e}: {raw[:300]!r}")
        st_.case(case, False, labels)
        return st_.violations[vs_before:]
    import jsonschema

    errs = sorted(jsonschema.Draft202012Validator(SCHEMA).iter_errors(rep), key=lambda e: list(e.absolute_path))
    for e in errs[:3]:
        path = "/".join(str(p) for p in e.absolute_path)
        generic = "/".join("*" if isinstance(p, int) else str(p) for p in e.absolute_path)
        viol("schema:" + generic, {"at": path, "message": e.message[:300]})
    ran = runner.executed_codemods(res.stdout)
    reported = [r["codemod"] for r in rep["results"]]
    reg = engine.registry()._codemods_by_id
    expected_seq = [c for c in case["codemods"] if c in reg]
    files_present = any(v[0] == "f" for v in before.values())
    if reported != expected_seq:
        viol("results-not-one-per-selected-codemod-in-order", {"selected": expected_seq, "reported": reported})
    if files_present and expected_seq and ran != expected_seq:
        viol("executed-sequence-differs", {"selected": expected_seq, "ran": ran})
    nchangesets = 0
    for r in rep["results"]:
        cm = reg.get(r["codemod"])
        if cm is None:
            viol("result-for-unregistered-codemod", r["codemod"])
            continue
        if r.get("summary") != cm.summary:
            viol("summary-differs-from-registry", {"codemod": cm.id})
        if not r.get("description", "").startswith(cm.description[:40]):
            viol("description-differs-from-registry", {"codemod": cm.id})
        want_refs = [ref.url for ref in cm.references]
        got_refs = [x.get("url") for x in (r.get("references") or [])]
        if want_refs != got_refs:
            viol("references-differ-from-registry", {"codemod": cm.id, "want": want_refs, "got": got_refs})
        sast_cm = cm.origin != "pixee"
        if sast_cm and not (r.get("detectionTool") or {}).get("name"):
            viol("sast-result-without-detection-tool", {"codemod": cm.id})
        declared = {rule.id for rule in cm.detection_tool_rules}
        changed_paths = set()
        for cs in r.get("changeset", []):
            nchangesets += 1
            p = cs["path"]
            changed_paths.add(os.path.normpath(p))
            if os.path.isabs(p) or p.startswith(".."):
                viol("changeset-path-not-project-relative", {"codemod": cm.id, "path": p})
                continue
            b = before.get(os.path.normpath(p))
            if b is None or b[0] != "f":
                viol("changeset-names-nonexistent-file", {"codemod": cm.id, "path": p})
                continue
            try:
                btxt = b[1].decode("utf-8")
                a = after.get(os.path.normpath(p))
                if case["dry"]:
                    atxt = udiff.apply(cs["diff"], btxt) if cs.get("diff") else btxt
                else:
                    atxt = a[1].decode("utf-8") if a and a[0] == "f" else btxt
            except (UnicodeDecodeError, udiff.DiffError):
                atxt = btxt = None
            if btxt is not None:
                nlines = max(len(udiff.split_lines(btxt)), len(udiff.split_lines(atxt)), 1)
                for ch in cs.get("changes", []):
                    ln = ch.get("lineNumber")
                    if not isinstance(ln, int) or not (1 <= ln <= nlines):
                        viol("change-line-number-outside-file", {"codemod": cm.id, "path": p, "lineNumber": ln, "lines": nlines, "description": (ch.get("description") or "")[:80]}, [cm.id])
                        break
            for ch in cs.get("changes", []):
                for f in ch.get("findings") or []:
                    if sast_cm and declared and f.get("rule", {}).get("id") not in declared:
                        viol("finding-rule-not-declared-by-codemod", {"codemod": cm.id, "rule": f.get("rule", {}).get("id"), "declared": sorted(declared)})
        for f in r.get("unfixedFindings") or []:
            if sast_cm and declared and f.get("rule", {}).get("id") not in declared:
                viol("unfixed-finding-rule-not-declared-by-codemod", {"codemod": cm.id, "rule": f.get("rule", {}).get("id")})
        failed = set()
        for ff in r.get("failedFiles") or []:
            fp = Path(ff) if os.path.isabs(ff) else Path(root) / ff
            try:
                failed.add(os.path.normpath(os.path.relpath(fp, proj)))
            except ValueError:
                pass
        both = failed & changed_paths
        if both:
            viol("file-both-failed-and-changed", {"codemod": cm.id, "files": sorted(both)})
    # the report's run section
    if os.path.realpath(rep["run"]["directory"]) != os.path.realpath(str(proj)):
        viol("run-directory-wrong", {"reported": rep["run"]["directory"], "actual": str(proj)})
    st_.case(case, nchangesets > 0, labels + (["has-changeset"] if nchangesets else ["no-changeset"]) + (["has-failed-files"] if any(r.get("failedFiles") for r in rep["results"]) else []),
             sample={"argv": [a.replace(str(root), "$S") for a in argv], "results": [{"codemod": r["codemod"], "changesets": len(r.get("changeset", [])), "failed": len(r.get("failedFiles") or [])} for r in rep["results"]]})
    return st_.violations[vs_before:]


BUDGET = {"quick": 12, "thorough": 250}


def shards(tier, seed):
    return [{"n": BUDGET[tier], "seed": seed * 1000 + i, "cell": i, "vseed": seed} for i in range(16)]


def dep_grid_case(cell, vseed):
    """Deterministic grid under the random shapes: 4 manifest kinds x 4 placements (root, deploy/, svc/api/, deploy/ in a
    dry run), one cell per shard; the adder and the companion codemod rotate with VERIF_SEED."""
    kinds = sorted(DEP_MANIFESTS)
    where = ["", "deploy", "svc/api", "deploy"][cell // 4]
    adder = DEP_ADDERS[(cell + vseed) % len(DEP_ADDERS)]
    ids = [adder, "pixee:python/use-set-literal"] if (cell + vseed) % 2 else ["pixee:python/use-set-literal", adder]
    return {"codemods": ids, "files": [], "extras": ["crlf-extra"], "layout": "normal", "dry": cell // 4 == 3, "dirstyle": ["abs", "rel", "dot", "slash"][cell % 4],
            "verbose": False, "dep": {"adder": adder, "manifest": kinds[cell % 4], "where": where}}


def run_shard(spec):
    stats = core.Stats()
    if "cell" in spec:
        eval_shape(dep_grid_case(spec["cell"], spec.get("vseed", 1)), stats)
    core.drive(run_shape(), lambda c: eval_shape(c, stats), spec["n"], spec["seed"])
    return stats


def replay(case):
    return eval_shape(case["shape"])
