"""C19 -- regex and XML transformer pipelines edit only their targets and preserve everything else.

The public pipeline API is driven directly (no core codemod uses these pipelines) with a real
CodemodExecutionContext / FileContext carrying generated findings.
Regex: reference model (re.sub on targeted lines, identity elsewhere).
XML:   documents serialised by an own writer (so lexical form and element positions are known),
       before/after compared as canonical trees built with lxml/libxml2 (independent of the expat/SAX
       stack under test).
"""
from __future__ import annotations

import functools
import json
import re
from pathlib import Path

from hypothesis import strategies as st

from .. import core, runner, udiff

ID = "C19"
LEVEL = "exploration"
TECHNIQUE = "Hypothesis-generated text/XML documents x edits x finding sets vs. a reference model of the edit; lxml (libxml2) canonical-tree comparison; strict diff round-trip"
RULE = (
    "regex: generated text files (LF/CRLF/mixed EOL, optional final newline, non-ASCII, rare exotic separators \\x0c/\\u2028/lone \\r) x patterns from a "
    "safe family (literal words, character classes, ^/$ anchors, groups with back-references) x finding sets on random lines, through "
    "RegexTransformerPipeline and SastRegexTransformerPipeline, dry-run on/off; xml: recursive documents (nesting, prefixes/xmlns, attributes with "
    "quotes/&/</non-ASCII, escaped text, character references, CDATA with markup characters, comments, PIs, optional declaration, DOCTYPE with/without ids, "
    "CRLF) x ElementAttributeXMLTransformer maps / NewElementXMLTransformer elements x results None / findings by line+column / line-only.  "
    "Non-trivial = the pipeline edited something (changeset produced) and at least one line/element was left that must stay untouched; "
    "distinct = distinct (document, edit, findings)."
)
ASSUMPTIONS = [
    "insignificant whitespace = whitespace-only character data and leading/trailing whitespace of a text chunk at a markup boundary (weak reading); the XML declaration and empty-element spelling (<a/> vs <a></a>) are not compared",
    "regex patterns never match line terminators; a 'line' is delimited by \\n (with optional preceding \\r); files with other separators are a labelled class",
    "findings with columns are only aimed at elements preceded by ASCII-only text on their line (byte and character columns agree there)",
    "documents the parser refuses by design (external DTD references, entity declarations: defusedxml) must be left untouched and reported as failed - that is acceptable behaviour",
]

# ======================================================================= shared helpers


def make_context(directory: Path, dry_run: bool):
    from codemodder.context import CodemodExecutionContext
    from codemodder.project_analysis.python_repo_manager import PythonRepoManager
    from codemodder.providers import load_providers
    from .c17 import real_registry

    return CodemodExecutionContext(directory, dry_run, False, real_registry()["r"], load_providers(), PythonRepoManager(directory), [], [])


def make_results(findings, rel):
    """findings: list of [line, col, endline, fid]"""
    from codemodder.codetf import Finding, Rule
    from codemodder.result import LineInfo, SASTResult
    from core_codemods.sonar.results import SonarLocation

    out = []
    for line, col, endline, fid in findings:
        loc = SonarLocation(file=Path(rel), start=LineInfo(line, col, ""), end=LineInfo(endline, col + 3, ""))
        out.append(SASTResult(rule_id="rule-x", locations=[loc], finding_id=fid, finding=Finding(id=fid, rule=Rule(id="rule-x", name="rule-x"))))
    return out


def findings_covering(findings, line):
    return sorted(f[3] for f in findings if f[0] <= line <= f[2])


def change_view(changeset):
    if changeset is None:
        return None
    return {
        "path": changeset.path,
        "diff": changeset.diff,
        "changes": [[c.lineNumber, sorted(f.id for f in (c.findings or []))] for c in changeset.changes],
    }


# ======================================================================= regex

WORDS = ["foo", "bar", "http", "x1", "Aé", "tok"]
EOLS = ["\n", "\r\n"]
EXOTIC = ["\x0c", " ", "\r", "\x85", "\x1c"]


@st.composite
def text_line(draw):
    parts = draw(st.lists(st.sampled_from(WORDS + ["=", " ", "  ", "(", ")", "42", "é", "日本", "\t", "#", "'s'"]), max_size=7))
    return "".join(parts)


PATTERNS = [
    # (pattern, replacement)
    ("foo", "baz"),
    ("http", "https"),
    ("^foo", "F"),
    ("bar$", "B"),
    ("[0-9]+", "N"),
    ("(foo)(bar)", r"\2\1"),
    (r"\bx1\b", "y2"),
    ("é", "e"),
    ("(?i)FOO", "f"),
    ("tok|42", "<T>"),
    ("o+", "0"),
]


@st.composite
def regex_case(draw):
    n = draw(st.integers(0, 8))
    eol_mode = draw(st.sampled_from(["lf", "lf", "crlf", "mixed"]))
    lines = []
    for _ in range(n):
        body = draw(text_line())
        if draw(st.integers(0, 24)) == 0:
            k = draw(st.integers(0, len(body)))
            body = body[:k] + draw(st.sampled_from(EXOTIC)) + body[k:]
        eol = {"lf": "\n", "crlf": "\r\n"}.get(eol_mode) or draw(st.sampled_from(EOLS))
        lines.append(body + eol)
    text = "".join(lines)
    if text and draw(st.integers(0, 3)) == 0:
        text = text[: -len(lines[-1])] + lines[-1].rstrip("\r\n")  # no final newline
    if text and draw(st.integers(0, 5)) == 0:
        # a file saved with a UTF-8 byte order mark: the mark is part of line 1 and must survive like any other text
        text = "\ufeff" + text
        lines[0] = "\ufeff" + lines[0]
    pat, repl = draw(st.sampled_from(PATTERNS))
    nl = max(1, n)
    matching = [i for i, l in enumerate(lines, 1) if re.search(pat, l)] or [1]
    findings = []
    for k in range(draw(st.integers(0, 3))):
        line = draw(st.sampled_from(matching)) if draw(st.booleans()) else draw(st.integers(1, nl))
        findings.append([line, draw(st.integers(1, 5)), line + draw(st.sampled_from([0, 0, 0, 1])), f"f{k}"])
    return {
        "level": "regex",
        "text": text,
        "pattern": pat,
        "replacement": repl,
        "sast": draw(st.booleans()),
        "findings": findings,
        "dry_run": draw(st.booleans()),
        "undecodable": draw(st.integers(0, 30)) == 0,
    }


def ref_lines(text):
    """Lines delimited by \\n only; terminator (\\r\\n or \\n) kept apart."""
    out = []
    for raw in text.split("\n"):
        out.append(raw)
    # text.split leaves a last element without newline (possibly empty)
    res = []
    for i, raw in enumerate(out):
        last = i == len(out) - 1
        if last:
            if raw != "":
                res.append((raw, ""))
        else:
            if raw.endswith("\r"):
                res.append((raw[:-1], "\r\n"))
            else:
                res.append((raw, "\n"))
    return res


def eval_regex(case, stats=None):
    from codemodder.codemods.regex_transformer import RegexTransformerPipeline, SastRegexTransformerPipeline
    from codemodder.file_context import FileContext

    vs = []
    text, pat, repl, sast = case["text"], case["pattern"], case["replacement"], case["sast"]
    findings = case["findings"]
    exotic = any(c in text for c in ("\x0c", " ", " ", "\x85", "\x1c", "\x1d", "\x1e", "\x0b")) or re.search(r"\r(?!\n)", text) is not None
    feats = (["sast"] if sast else ["plain"]) + (["exotic-separator"] if exotic else []) + (["bom"] if text.startswith("\ufeff") else [])
    data = text.encode("utf-8")
    if case["undecodable"]:
        data = data + b"\xff\xfe bad \x80\n"
    # reference -- two admissible readings of "a line matching the pattern": the pattern is applied to the
    # line's content without its terminator (A) or to the line including it (B; '$' then does not match
    # before '\r\n').  The statement does not choose, so the observed behaviour must agree with one of
    # them consistently for the whole file.
    lines = ref_lines(text)
    target_lines = {f[0] for f in findings}

    def reference(with_terminator):
        new, changes = [], []
        for i, (body, term) in enumerate(lines, 1):
            if sast and i not in target_lines:
                new.append(body + term)
                continue
            if with_terminator:
                nl = re.sub(pat, repl, body + term)
            else:
                nl = re.sub(pat, repl, body) + term
            new.append(nl)
            if nl != body + term:
                changes.append([i, findings_covering(findings, i)])
        return "".join(new), changes

    readings = [reference(False), reference(True)]
    exp_text, exp_changes = readings[0]
    with runner.scratch("c19r") as sd:
        f = sd / "sub" / "page.html"
        f.parent.mkdir()
        f.write_bytes(data)
        ctx = make_context(sd, case["dry_run"])
        results = make_results(findings, "sub/page.html")
        fc = FileContext(sd, f, [], [], results)
        cls = SastRegexTransformerPipeline if sast else RegexTransformerPipeline
        pipe = cls(pattern=pat, replacement=repl, change_description="regex edit")
        try:
            cs = pipe.apply(ctx, fc, results)
            raised = None
        except Exception as e:
            cs, raised = None, e
        after = f.read_bytes()
    view = change_view(cs)
    det = {"text": text, "pattern": pat, "replacement": repl, "sast": sast, "findings": findings, "dry_run": case["dry_run"]}

    def judge(exp_text, exp_changes):
        vs = []
        if case["undecodable"]:
            # must be rejected cleanly: exception or no changeset; file untouched
            if after != data:
                vs.append(dict(component="regex", kind="undecodable-file-modified", features=feats, case=case, detail=json.dumps(det)))
            elif cs is not None:
                vs.append(dict(component="regex", kind="undecodable-file-changeset", features=feats, case=case, detail=json.dumps(det)))
        elif raised is not None:
            vs.append(dict(component="regex", kind="raises", features=feats + [type(raised).__name__], case=case, detail=json.dumps({**det, "exc": repr(raised)})))
        else:
            got_text_on_disk = after.decode("utf-8")
            should_change = bool(exp_changes)
            if not should_change:
                if cs is not None or after != data:
                    vs.append(dict(component="regex", kind="edit-without-target", features=feats, case=case, detail=json.dumps({**det, "changeset": view})))
            else:
                if cs is None:
                    vs.append(dict(component="regex", kind="target-not-edited", features=feats, case=case, detail=json.dumps({**det, "expected": exp_text})))
                else:
                    # content
                    if case["dry_run"]:
                        if after != data:
                            vs.append(dict(component="regex", kind="dry-run-wrote", features=feats, case=case, detail=json.dumps(det)))
                        new_text = None
                    else:
                        new_text = got_text_on_disk
                        if new_text != exp_text:
                            vs.append(dict(component="regex", kind="content-differs", features=feats, case=case, detail=json.dumps({**det, "expected": exp_text, "got": new_text})))
                    # changes
                    if view["changes"] != exp_changes:
                        gl = [c[0] for c in view["changes"]]
                        el = [c[0] for c in exp_changes]
                        kind = "change-lines-differ" if gl != el else "change-findings-differ"
                        vs.append(dict(component="regex", kind=kind, features=feats, case=case, detail=json.dumps({**det, "expected_changes": exp_changes, "got_changes": view["changes"]})))
                    # diff faithful (vs. the expected content in dry-run, vs. disk otherwise)
                    bad = udiff.check_roundtrip(cs.diff, text, exp_text if new_text is None else new_text)
                    if bad:
                        vs.append(dict(component="regex", kind="diff-not-faithful", features=feats, case=case, detail=json.dumps({**det, "why": bad, "diff": cs.diff})))
                    if view["path"] != "sub/page.html":
                        vs.append(dict(component="regex", kind="changeset-path", features=feats, case=case, detail=view["path"]))

        return vs

    cands = [judge(*r) for r in readings]
    vs = min(cands, key=len)
    if stats is not None:
        untouched_exists = len(lines) > len(exp_changes)
        nontriv = bool(exp_changes) and untouched_exists and not case["undecodable"]
        labels = ["regex", "regex:" + ("sast" if sast else "plain"), "regex:dry" if case["dry_run"] else "regex:real"]
        if exotic:
            labels.append("regex:exotic-separator")
        if "\r\n" in text:
            labels.append("regex:crlf")
        if text and not text.endswith("\n"):
            labels.append("regex:no-final-newline")
        if case["undecodable"]:
            labels.append("regex:undecodable")
        if any(c[1] for c in exp_changes):
            labels.append("regex:edited-line-has-finding")
        stats.case(case, nontriv, labels, sample={k: case[k] for k in ("text", "pattern", "replacement", "sast", "findings", "dry_run")})
        for v in vs:
            stats.violation(**v)
    return vs


# ======================================================================= xml

NAMES = ["a", "item", "cfg", "ns:opt", "b-c", "x.y"]
ATTR_NAMES = ["id", "secure", "ns:k", "data-x", "v"]
ATTR_VALUES = ["true", "false", "a b", 'q"uote', "ap'os", "a&b", "x<y", "é😀", "", "1>2"]
TEXTS = ["hello", " ", "\n  ", "a & b", "x < y", "é", "tail]]>t", "日本 ", "q\"'", "  padded  "]


@st.composite
def xml_node(draw, depth):
    tag = draw(st.sampled_from(NAMES))
    attrs = {}
    for k in draw(st.lists(st.sampled_from(ATTR_NAMES), max_size=3, unique=True)):
        attrs[k] = draw(st.sampled_from(ATTR_VALUES))
    children = []
    if depth < 3:
        for _ in range(draw(st.integers(0, 3 if depth < 2 else 1))):
            kind = draw(st.sampled_from(["elem", "elem", "text", "text", "cdata", "comment", "pi", "charref"]))
            if kind == "elem":
                children.append(draw(xml_node(depth + 1)))
            elif kind == "text":
                children.append({"text": draw(st.sampled_from(TEXTS))})
            elif kind == "charref":
                children.append({"charref": draw(st.sampled_from(["é", "A", "<", "😀"]))})
            elif kind == "cdata":
                children.append({"cdata": draw(st.sampled_from(["plain", "a<b>&c", "<tag attr='1'/>", " ] ]> ", "é&amp;"]))})
            elif kind == "comment":
                children.append({"comment": draw(st.sampled_from([" note ", "a<b", "x - y", ""]))})
            else:
                children.append({"pi": [draw(st.sampled_from(["php", "proc"])), draw(st.sampled_from(["", "a=1", "x > y"]))]})
    return {
        "tag": tag,
        "attrs": attrs,
        "children": children,
        "selfclose": (not children) and draw(st.booleans()),
        "mltag": bool(attrs) and draw(st.integers(0, 4)) == 0,
        "nl_after": draw(st.booleans()),
    }


@st.composite
def xml_case(draw):
    root = draw(xml_node(0))
    root["selfclose"] = False

    def tags(n):
        return [n["tag"]] + [t for c in n["children"] if "tag" in c for t in tags(c)]

    present = sorted(set(tags(root)))
    # mostly aim at tags that occur (so that something is edited), sometimes at absent ones
    name_pool = present * 3 + NAMES
    kind = draw(st.sampled_from(["attr", "attr", "new"]))
    if kind == "attr":
        names = draw(st.lists(st.sampled_from(name_pool), min_size=1, max_size=2, unique=True))
        edit = {"kind": "attr", "map": {n: {k: draw(st.sampled_from(["true", "new&v", 'n"q', "é"])) for k in draw(st.lists(st.sampled_from(ATTR_NAMES), min_size=1, max_size=2, unique=True))} for n in names}}
        results_mode = draw(st.sampled_from(["none", "none", "linecol", "lineonly", "empty"]))
    else:
        edit = {"kind": "new", "elements": [
            {"name": draw(st.sampled_from(["added", "ns:added"])), "parent": draw(st.sampled_from(name_pool)), "content": draw(st.sampled_from(["", "v", "a&b<c"])),
             "attributes": draw(st.sampled_from([{}, {"k": "v"}, {"k": 'a"&'}])), "nested": draw(st.booleans())}
            for _ in range(draw(st.integers(1, 2)))
        ]}
        results_mode = draw(st.sampled_from(["none", "none", "lineonly-findings"]))
    return {
        "level": "xml",
        "root": root,
        "decl": draw(st.sampled_from(["none", "std", "upper", "standalone"])),
        "doctype": draw(st.sampled_from(["none"] * 5 + ["bare", "system", "public"])),
        "crlf": draw(st.integers(0, 4)) == 0,
        "prolog_comment": draw(st.booleans()),
        "edit": edit,
        "results_mode": results_mode,
        "pick": draw(st.lists(st.integers(0, 50), min_size=1, max_size=3)),
        "dry_run": draw(st.booleans()),
    }


def esc_text(s):
    return s.replace("&", "&amp;").replace("<", "&lt;").replace(">", "&gt;")


def esc_attr(s):
    return s.replace("&", "&amp;").replace("<", "&lt;").replace('"', "&quot;")


class Writer:
    def __init__(self):
        self.parts = []
        self.line = 1
        self.col = 0
        self.ascii_line = True
        self.elements = []  # (node, line, col, ascii_before, end_line)

    def w(self, s):
        self.parts.append(s)
        for ch in s:
            if ch == "\n":
                self.line += 1
                self.col = 0
                self.ascii_line = True
            else:
                self.col += 1
                if ord(ch) > 127:
                    self.ascii_line = False

    def node(self, n):
        entry = {"node": n, "line": self.line, "col": self.col, "ascii": self.ascii_line}
        self.elements.append(entry)
        self.w("<" + n["tag"])
        for k, v in n["attrs"].items():
            self.w(("\n    " if n["mltag"] else " ") + f'{k}="{esc_attr(v)}"')
        if n["selfclose"]:
            entry["end_line"] = self.line
            self.w("/>")
        else:
            self.w(">")
            for c in n["children"]:
                if "tag" in c:
                    self.node(c)
                elif "text" in c:
                    self.w(esc_text(c["text"]))
                elif "charref" in c:
                    self.w(f"&#{ord(c['charref'])};")
                elif "cdata" in c:
                    self.w("<![CDATA[" + c["cdata"].replace("]]>", "]] >") + "]]>")
                elif "comment" in c:
                    self.w("<!--" + c["comment"] + "-->")
                else:
                    self.w("<?" + c["pi"][0] + (" " + c["pi"][1] if c["pi"][1] else "") + "?>")
            entry["end_line"] = self.line
            self.w("</" + n["tag"] + ">")
        if n["nl_after"]:
            self.w("\n")


def uses_prefix(n):
    if ":" in n["tag"] or any(":" in k for k in n["attrs"]):
        return True
    return any(uses_prefix(c) for c in n["children"] if "tag" in c)


def render_xml(case):
    w = Writer()
    if case["decl"] == "std":
        w.w('<?xml version="1.0" encoding="utf-8"?>\n')
    elif case["decl"] == "upper":
        w.w('<?xml version="1.0" encoding="UTF-8"?>\n')
    elif case["decl"] == "standalone":
        w.w('<?xml version="1.0" encoding="utf-8" standalone="yes"?>\n')
    root = case["root"]
    if case["doctype"] == "bare":
        w.w(f"<!DOCTYPE {root['tag']}>\n")
    elif case["doctype"] == "system":
        w.w(f'<!DOCTYPE {root["tag"]} SYSTEM "x.dtd">\n')
    elif case["doctype"] == "public":
        w.w(f'<!DOCTYPE {root["tag"]} PUBLIC "-//X//DTD Y//EN" "http://example.invalid/y.dtd">\n')
    if case["prolog_comment"]:
        w.w("<!-- prolog -->\n")
    root = dict(root)
    edit = case["edit"]
    needs_ns = uses_prefix(root) or (edit["kind"] == "new" and any(":" in e["name"] for e in edit["elements"])) or (edit["kind"] == "attr" and any(":" in k for m in edit["map"].values() for k in m))
    if needs_ns:
        root["attrs"] = {"xmlns:ns": "urn:example:ns", **root["attrs"]}
    w.node(root)
    text = "".join(w.parts)
    if case["crlf"]:
        text = text.replace("\n", "\r\n")
    return text, w.elements, root


def canon(data: bytes):
    """Canonical tree via lxml/libxml2 (entities not resolved, no network)."""
    from lxml import etree

    parser = etree.XMLParser(resolve_entities=False, no_network=True, load_dtd=False, strip_cdata=True, remove_comments=False, remove_pis=False, huge_tree=False)
    root = etree.fromstring(data, parser)
    tree = root.getroottree()

    def norm_text(t):
        t = (t or "").strip()
        return t

    def conv(el):
        if el.tag is etree.Comment:
            return ["#comment", el.text or ""]
        if el.tag is etree.PI:
            return ["#pi", el.target, (el.text or "").strip()]
        kids = []
        buf = norm_text(el.text)
        if buf:
            kids.append(["#text", buf])
        for ch in el:
            kids.append(conv(ch))
            t = norm_text(ch.tail)
            if t:
                kids.append(["#text", t])
        # merge adjacent text chunks (split only by markup that vanished) -- keep as is: chunks are split by comments/PIs which are nodes
        return [el.tag if isinstance(el.tag, str) else str(el.tag), sorted((k, v) for k, v in el.attrib.items()), kids]

    pro, epi = [], []
    for s in root.itersiblings(preceding=True):
        pro.insert(0, conv(s))
    for s in root.itersiblings():
        epi.append(conv(s))
    di = tree.docinfo
    doctype = [di.root_name, di.public_id, di.system_url] if di.doctype else None
    return {"doctype": doctype, "prolog": pro, "root": conv(root), "epilog": epi}


def apply_edit_to_canon(tree, original_root, edit, targeted_ids, elements):
    """Expected canonical tree: walk the generated model and the canonical tree in parallel."""
    import copy

    t = copy.deepcopy(tree)
    NS = "urn:example:ns"

    def qname(name):
        if ":" in name:
            return "{%s}%s" % (NS, name.split(":", 1)[1])
        return name

    # element order in `elements` is document order == order of a pre-order walk of the canonical tree
    counter = {"i": 0}

    def walk(cn):
        idx = counter["i"]
        counter["i"] += 1
        model = elements[idx]["node"]
        if edit["kind"] == "attr":
            if model["tag"] in edit["map"] and idx in targeted_ids:
                attrs = dict(cn[1])
                for k, v in edit["map"][model["tag"]].items():
                    attrs[qname(k) if ":" in k else k] = v
                cn[1] = sorted(attrs.items())
        for ch in cn[2]:
            if isinstance(ch, list) and not ch[0].startswith("#"):
                walk(ch)
        if edit["kind"] == "new":
            for ne in edit["elements"]:
                if ne["parent"] == model["tag"]:
                    cn[2].append(new_canon(ne))

    def new_canon(ne):
        kids = []
        if ne.get("nested"):
            kids.append([qname("inner"), [], ([["#text", ne["content"].strip()]] if ne["content"].strip() else [])])
        elif ne["content"].strip():
            kids.append(["#text", ne["content"].strip()])
        return [qname(ne["name"]), sorted(ne["attributes"].items()), kids]

    walk(t["root"])
    return t


def eval_xml(case, stats=None):
    from codemodder.codemods.xml_transformer import ElementAttributeXMLTransformer, NewElement, NewElementXMLTransformer, XMLTransformerPipeline
    from codemodder.file_context import FileContext

    vs = []
    text, elements, root = render_xml(case)
    data = text.encode("utf-8")
    edit = case["edit"]
    mode = case["results_mode"]
    feats = [edit["kind"], "results:" + mode]
    if case["doctype"] != "none":
        feats.append("doctype:" + case["doctype"])
    try:
        before_tree = canon(data)
    except Exception as e:
        raise core.HarnessError(f"C19 generator produced XML that lxml rejects: {e}: {text[:300]!r}")
    # candidates and findings
    findings = []
    if edit["kind"] == "attr":
        cand = [i for i, e in enumerate(elements) if e["node"]["tag"] in edit["map"]]
        if mode == "none":
            targeted = set(cand)
            results = None
        elif mode == "empty":
            targeted = set()
            results = []
        else:
            ok = [i for i in cand if elements[i]["ascii"]] if mode == "linecol" else cand
            chosen = sorted({ok[p % len(ok)] for p in case["pick"]}) if ok else []
            for k, i in enumerate(chosen):
                e = elements[i]
                findings.append([e["line"], e["col"] + 1, e["line"], f"f{k}"])
            # decoy: a finding on a line/column where no candidate starts
            findings.append([9999, 1, 9999, "decoy"])
            if mode == "linecol":
                targeted = set(chosen)
            else:
                lines = {elements[i]["line"] for i in chosen}
                targeted = {i for i in cand if elements[i]["line"] in lines}
            results = "findings"
        # an element that already carries exactly these values is not edited: no change entry, and a file whose
        # targets are all like that has no changeset (a changeset with an empty diff is not a change)
        def really_changes(i):
            node = elements[i]["node"]
            return any(node["attrs"].get(k) != v for k, v in edit["map"].get(node["tag"], {}).items())

        exp_change_lines = sorted(elements[i]["line"] for i in targeted if really_changes(i))
    else:
        targeted = set()
        results = None
        if mode == "lineonly-findings":
            for k, p in enumerate(case["pick"][:2]):
                e = elements[p % len(elements)]
                findings.append([e["end_line"], 1, e["end_line"], f"f{k}"])
            results = "findings"
        exp_change_lines = []
        for e in elements:  # change is reported when the parent's end tag is reached: document order of end tags
            pass
        ends = []

        def order_ends(idx_holder, n):
            my = idx_holder["i"]
            idx_holder["i"] += 1
            for c in n["children"]:
                if "tag" in c:
                    order_ends(idx_holder, c)
            for ne in edit["elements"]:
                if ne["parent"] == n["tag"]:
                    ends.append(elements[my]["end_line"])

        order_ends({"i": 0}, root)
        exp_change_lines = ends
    with runner.scratch("c19x") as sd:
        f = sd / "conf" / "web.xml"
        f.parent.mkdir()
        f.write_bytes(data)
        ctx = make_context(sd, case["dry_run"])
        res_objs = make_results(findings, "conf/web.xml")
        fc = FileContext(sd, f, [], [], res_objs)
        if edit["kind"] == "attr":
            tcls = functools.partial(ElementAttributeXMLTransformer, name_attributes_map=edit["map"], line_only_matching=(mode == "lineonly"))
        else:
            def mk(ne):
                content = NewElement(name="inner", parent_name=ne["name"], content=ne["content"]) if ne.get("nested") else ne["content"]
                return NewElement(name=ne["name"], parent_name=ne["parent"], content=content, attributes=dict(ne["attributes"]))

            tcls = functools.partial(NewElementXMLTransformer, new_elements=[mk(ne) for ne in edit["elements"]])
        pipe = XMLTransformerPipeline(tcls)
        pass_results = None if results is None else (res_objs if results == "findings" else [])
        try:
            cs = pipe.apply(ctx, fc, pass_results)
            raised = None
        except Exception as e:
            cs, raised = None, e
        after = f.read_bytes()
        failed = list(fc.failures)
    view = change_view(cs)
    det = {"xml": text, "edit": edit, "results_mode": mode, "findings": findings, "dry_run": case["dry_run"]}
    refused_ok = case["doctype"] in ("system", "public")
    if raised is not None:
        vs.append(dict(component="xml", kind="raises", features=feats + [type(raised).__name__], case=case, detail=json.dumps({**det, "exc": repr(raised)})))
    elif failed:
        if after != data:
            vs.append(dict(component="xml", kind="failed-file-modified", features=feats, case=case, detail=json.dumps(det)))
        if not refused_ok:
            vs.append(dict(component="xml", kind="well-formed-document-refused", features=feats, case=case, detail=json.dumps(det)))
    else:
        should_change = bool(exp_change_lines)
        if not should_change:
            if cs is not None or after != data:
                vs.append(dict(component="xml", kind="edit-without-target", features=feats, case=case, detail=json.dumps({**det, "changeset": view})))
        elif cs is None:
            vs.append(dict(component="xml", kind="target-not-edited", features=feats, case=case, detail=json.dumps(det)))
        else:
            exp_tree = apply_edit_to_canon(before_tree, root, edit, targeted, elements)
            if case["dry_run"]:
                if after != data:
                    vs.append(dict(component="xml", kind="dry-run-wrote", features=feats, case=case, detail=json.dumps(det)))
                # content of a dry run = what the diff produces
                try:
                    new_text = udiff.apply(cs.diff, text)
                except udiff.DiffError as e:
                    new_text = None
                    vs.append(dict(component="xml", kind="diff-not-faithful", features=feats, case=case, detail=json.dumps({**det, "why": str(e), "diff": cs.diff})))
            else:
                new_text = after.decode("utf-8")
                bad = udiff.check_roundtrip(cs.diff, text, new_text)
                if bad:
                    vs.append(dict(component="xml", kind="diff-not-faithful", features=feats, case=case, detail=json.dumps({**det, "why": bad, "diff": cs.diff, "after": new_text})))
            if new_text is not None:
                try:
                    got_tree = canon(new_text.encode("utf-8"))
                except Exception as e:
                    got_tree = None
                    vs.append(dict(component="xml", kind="output-not-well-formed", features=feats, case=case, detail=json.dumps({**det, "after": new_text, "err": str(e)})))
                if got_tree is not None and got_tree != exp_tree:
                    k = first_diff(exp_tree, got_tree)
                    vs.append(dict(component="xml", kind="content-differs:" + k[0], features=feats, case=case,
                                   detail=json.dumps({"where": k[1], "expected": k[2], "got": k[3], **det, "after": new_text})[:6000]))
            got_lines = [c[0] for c in view["changes"]]
            if sorted(got_lines) != sorted(exp_change_lines):
                vs.append(dict(component="xml", kind="change-lines-differ", features=feats, case=case, detail=json.dumps({**det, "expected_lines": exp_change_lines, "got": view["changes"]})))
            else:
                for ln, fids in view["changes"]:
                    if fids != findings_covering(findings, ln):
                        vs.append(dict(component="xml", kind="change-findings-differ", features=feats, case=case, detail=json.dumps({**det, "line": ln, "got": fids, "expected": findings_covering(findings, ln)})))
                        break
    if stats is not None:
        nontriv = bool(exp_change_lines) and cs is not None and len(elements) > len(targeted) + (0 if edit["kind"] == "attr" else 0)
        if edit["kind"] == "new":
            nontriv = bool(exp_change_lines) and cs is not None
        labels = ["xml", "xml:" + edit["kind"], "xml:results=" + mode, "xml:dry" if case["dry_run"] else "xml:real", "xml:doctype=" + case["doctype"], "xml:decl=" + case["decl"]]
        if case["crlf"]:
            labels.append("xml:crlf")
        flat = json.dumps(case["root"])
        for key in ("cdata", "comment", "pi", "charref"):
            if f'"{key}"' in flat:
                labels.append("xml:has-" + key)
        if failed:
            labels.append("xml:refused")
        stats.case(case, nontriv, labels, sample={"xml": text, "edit": edit, "results_mode": mode, "findings": findings} if len(text) < 600 else None)
        for v in vs:
            stats.violation(**v)
    return vs


def first_diff(a, b, path="/"):
    """Locate the first difference between two canonical trees: (kind, path, a, b)."""
    if isinstance(a, dict):
        for k in ("doctype", "prolog", "root", "epilog"):
            if a[k] != b[k]:
                if k in ("doctype",):
                    return ("doctype", k, a[k], b[k])
                if k == "root":
                    return first_diff(a[k], b[k], "/")
                return ("prolog-epilog", k, a[k], b[k])
    if isinstance(a, list) and isinstance(b, list) and a and b and isinstance(a[0], str) and isinstance(b[0], str):
        if a[0] != b[0]:
            return ("node-kind", path, a[:2], b[:2])
        if a[0] == "#text":
            return ("text", path, a, b)
        if a[0] == "#comment":
            return ("comment", path, a, b)
        if a[0] == "#pi":
            return ("pi", path, a, b)
        if a[1] != b[1]:
            return ("attributes", path + a[0], a[1], b[1])
        ka, kb = a[2], b[2]
        for i, (x, y) in enumerate(zip(ka, kb)):
            if x != y:
                return first_diff(x, y, path + a[0] + f"[{i}]/")
        return ("children-count", path + a[0], [k[0] for k in ka], [k[0] for k in kb])
    return ("other", path, a, b)


# ======================================================================= campaign

BUDGET = {"quick": {"regex": 300, "xml": 200}, "thorough": {"regex": 9000, "xml": 6000}}


def _quiet(strategy_factory):
    def make():
        import logging

        logging.getLogger("codemodder").setLevel(logging.CRITICAL + 1)
        return strategy_factory()

    return make


# coverage-guided stage: same strategies, same oracles, bytes chosen by libFuzzer (cmv/fuzz.py)
FUZZ_TARGETS = {
    "regex": (_quiet(lambda: regex_case()), lambda c, stats: eval_regex(c, stats)),
    "xml": (_quiet(lambda: xml_case()), lambda c, stats: eval_xml(c, stats)),
}
FUZZ_BUDGET = {"quick": (1, 1000), "thorough": (4, 40000)}


def shards(tier, seed):
    b = BUDGET[tier]
    out = []
    for i in range(FUZZ_BUDGET[tier][0]):
        out.append({"kind": "fuzz", "target": "xml", "runs": FUZZ_BUDGET[tier][1], "seed": seed * 1000 + 900 + i})
        out.append({"kind": "fuzz", "target": "regex", "runs": FUZZ_BUDGET[tier][1], "seed": seed * 1000 + 950 + i})
    for i in range(8):
        out.append({"kind": "xml", "n": b["xml"], "seed": seed * 1000 + 100 + i})
    for i in range(8):
        out.append({"kind": "regex", "n": b["regex"], "seed": seed * 1000 + i})
    return out


def run_shard(spec):
    import logging

    if spec["kind"] == "fuzz":
        from .. import fuzz

        return fuzz.fuzz_shard(__name__, spec["target"], spec["runs"], spec["seed"])
    stats = core.Stats()
    lg = logging.getLogger("codemodder")
    old = lg.level
    lg.setLevel(logging.CRITICAL + 1)
    try:
        if spec["kind"] == "regex":
            core.drive(regex_case(), lambda c: eval_regex(c, stats), spec["n"], spec["seed"])
        else:
            core.drive(xml_case(), lambda c: eval_xml(c, stats), spec["n"], spec["seed"])
    finally:
        lg.setLevel(old)
    return stats


def replay(case):
    return eval_regex(case) if case.get("level") == "regex" else eval_xml(case)
