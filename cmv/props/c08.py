"""C08 -- refactoring codemods preserve program behaviour (differential execution)."""
from __future__ import annotations

import json
from pathlib import Path

from hypothesis import strategies as st

from .. import core, engine, execobs, progspace, runner

ID = "C08"
LEVEL = "exploration"
TECHNIQUE = "grammar-generated closed deterministic programs per refactoring codemod; differential execution: the program is run before and after the codemod in forked children and (stdout, exception type) must be equal; sqlite3 in-memory databases for SQL parameterization"
RULE = (
    "per-codemod expression/statement grammars with runtime values incl. edge values: and/or/not trees over startswith/endswith and isinstance/issubclass calls (same and different "
    "receivers, tuple and scalar arguments, names bound to tuples, parenthesisation); `not` over comparisons with every operator, chains, is/in, None/str/int/float/list operands; "
    "any/all/sum/min/max over list comprehensions with extra arguments (start, key, default); set([...]) forms; f-strings without placeholders (doubled braces, raw, triple-quoted, "
    "implicit concatenation); assignment-then-if (name reused later, closures, elif, tuple/boolean/lambda values); hasattr(x, '__call__'); logging.warn and %-/+-formatted logging "
    "calls (scalar, tuple, tuple-valued name, dict; enabled and disabled levels); open() resource patterns on real temp files; lock `with` statements; module-level `global`; "
    "imports (unused, unordered, __future__) with side-effect-free stdlib modules; abc.abstractproperty classes; SQL string building against sqlite3 with benign values.  Each program "
    "prints its observables.  Non-trivial = the codemod changed the file and the original prints something; distinct = distinct (codemod, program text)."
)
ASSUMPTIONS = [
    "equivalence is observed on the generated runtime values only; programs are closed and deterministic (no I/O beyond private temp files, no threads beyond lock acquisition)",
    "short-circuit differences of use-generator for raising/side-effecting elements are the documented intent of that refactoring and are not generated; import codemods are exercised with side-effect-free stdlib modules only",
    "SQL parameter values are benign (words, digits, empty string, embedded spaces; never quotes), as the statement says",
    "a time-out of the executed program (6 s) discards the case as inconclusive (counted)",
]

PRELUDE_LOG = "import logging, sys\nlogging.basicConfig(stream=sys.stdout, format='%(levelname)s:%(message)s', level=logging.{level})\n"

STR_VALS = ['"hello world"', '"abc"', '""', '"xyz.py"', '"Hello"', '"ab"']
AFFIX = ['"he"', '"ab"', '"ld"', '".py"', '""', '"x"', '"H"', '"zz"']


# ------------------------------------------------------------------ boolean trees


@st.composite
def bool_tree(draw, leaf, depth=0):
    if depth >= 2 or draw(st.integers(0, 2)) == 0:
        return draw(leaf)
    op = draw(st.sampled_from(["and", "or", "or", "not"]))
    if op == "not":
        return "not " + paren(draw(bool_tree(leaf, depth + 1)), draw(st.booleans()) or True)
    a = draw(bool_tree(leaf, depth + 1))
    b = draw(bool_tree(leaf, depth + 1))
    c = draw(bool_tree(leaf, depth + 1)) if draw(st.integers(0, 2)) == 0 else None
    parts = [paren(x, draw(st.booleans())) for x in (a, b) + ((c,) if c else ())]
    return f" {op} ".join(parts)


def paren(s, yes):
    return f"({s})" if yes else s



def _callsig(n):
    import ast

    if isinstance(n, ast.Call):
        if isinstance(n.func, ast.Attribute) and isinstance(n.func.value, ast.Name):
            return (n.func.attr, n.func.value.id)
        if isinstance(n.func, ast.Name) and n.args and isinstance(n.args[0], ast.Name):
            return (n.func.id, n.args[0].id)
    return None


def _collapses(n):
    """Signature of the single combined call an operand turns into: a combinable call, or a (parenthesised) `or`
    group all of whose members collapse to the same call."""
    import ast

    if isinstance(n, ast.BoolOp) and isinstance(n.op, ast.Or):
        sigs = {_collapses(v) for v in n.values}
        return sigs.pop() if len(sigs) == 1 else None
    return _callsig(n)


def and_fold_shape(expr):
    """True when `expr` holds `CALL or CALL and ...` / `... and CALL or CALL` with the two calls combinable (a call
    may also be an `or` group that collapses into one call first): the shape whose regrouping the repository's own
    tests pin (known finding C08-K1)."""
    import ast

    for n in ast.walk(ast.parse(expr, mode="eval")):
        if isinstance(n, ast.BoolOp) and isinstance(n.op, ast.Or):
            for a, b in zip(n.values, n.values[1:]):
                if isinstance(b, ast.BoolOp) and isinstance(b.op, ast.And) and _collapses(a) and _collapses(a) == _collapses(b.values[0]):
                    return True
                if isinstance(a, ast.BoolOp) and isinstance(a.op, ast.And) and _collapses(b) and _collapses(b) == _collapses(a.values[-1]):
                    return True
    return False


@st.composite
def fam_startswith(draw):
    meth = draw(st.sampled_from(["startswith", "endswith"]))

    @st.composite
    def leaf(draw_):
        recv = draw_(st.sampled_from(["s", "s", "s", "t"]))
        m = meth if draw_(st.integers(0, 4)) else ("endswith" if meth == "startswith" else "startswith")
        kind = draw_(st.sampled_from(["scalar", "scalar", "tuple", "name", "tupname"]))
        if kind == "scalar":
            arg = draw_(st.sampled_from(AFFIX))
        elif kind == "tuple":
            arg = "(" + ", ".join(draw_(st.lists(st.sampled_from(AFFIX), min_size=1, max_size=3))) + ",)"
        elif kind == "name":
            arg = "p"
        else:
            arg = "tp"
        return f"{recv}.{m}({arg})"

    expr = draw(bool_tree(leaf()))
    s, t = draw(st.sampled_from(STR_VALS)), draw(st.sampled_from(STR_VALS))
    p = draw(st.sampled_from(AFFIX))
    tp = "(" + ", ".join(draw(st.lists(st.sampled_from(AFFIX), min_size=1, max_size=2))) + ",)"
    feats = ["and-fold-shape"] if and_fold_shape(expr) else []
    return f"s = {s}\nt = {t}\np = {p}\ntp = {tp}\nr = {expr}\nprint(repr(r))\nif {expr}:\n    print('yes')\nelse:\n    print('no')\n", feats


TYPES = ["int", "str", "float", "list", "bool", "type(None)", "(int, str)", "(float,)", "T1", "TT"]
INST_VALS = ["1", '"a"', "2.5", "None", "[1]", "True", "(1,)", "int", "str", "bool"]


@st.composite
def fam_isinstance(draw):
    fn = draw(st.sampled_from(["isinstance", "isinstance", "issubclass"]))

    @st.composite
    def leaf(draw_):
        x = draw_(st.sampled_from(["x", "x", "x", "y"]))
        f = fn if draw_(st.integers(0, 5)) else ("issubclass" if fn == "isinstance" else "isinstance")
        return f"{f}({x}, {draw_(st.sampled_from(TYPES))})"

    expr = draw(bool_tree(leaf()))
    vals = INST_VALS if fn == "isinstance" else ["int", "str", "bool", "float", "list", "1"]
    x, y = draw(st.sampled_from(vals)), draw(st.sampled_from(vals))
    feats = ["and-fold-shape"] if and_fold_shape(expr) else []
    return f"T1 = dict\nTT = (list, tuple)\nx = {x}\ny = {y}\ntry:\n    r = {expr}\n    print(repr(r))\nexcept TypeError as e:\n    print('TypeError')\n", feats


OPERANDS = ["1", "2", "0", "2.0", '"a"', '"b"', "None", "[1]", "[1, 2]", "(1,)", "a", "b", "c", "float('nan')", "True", "{1}", "{1, 2}"]
CMP = ["==", "!=", "<", "<=", ">", ">=", "is", "is not", "in", "not in"]


@st.composite
def fam_invert(draw):
    n = draw(st.sampled_from([2, 2, 2, 3]))
    ops = draw(st.lists(st.sampled_from(CMP), min_size=n - 1, max_size=n - 1))
    vals = draw(st.lists(st.sampled_from(OPERANDS), min_size=n, max_size=n))
    expr = vals[0]
    for o, v in zip(ops, vals[1:]):
        expr += f" {o} {v}"
    form = draw(st.sampled_from(["not {e}", "not ({e})", "not ({e}) and flag", "flag or not {e}", "not not ({e})", "(not {e}) == flag", "(not {e}) is flag", "flag != (not ({e}))"]))
    full = form.format(e=expr)
    a, b, c = (draw(st.sampled_from(["1", "2", '"a"', "None", "[1, 2]", "2.0", "{1}", "(1, 2)", "True", "0"])) for _ in range(3))
    env = {"a": a, "b": b, "c": c}
    concrete = [env.get(v, v) for v in vals]
    feats = []
    if any(o in ("<", "<=", ">", ">=") for o in ops) and any("{" in v or "nan" in v for v in concrete):
        feats.append("ordering-on-partial-order")
    # `not not (x is not True)` reaches the same simplification through the inner rewrite
    if n == 2 and ops[0] in ("is", "is not") and vals[1] in ("True", "False") and concrete[0] not in ("True", "False"):
        feats.append("is-bool-literal-on-non-bool")
    if n > 2:
        feats.append("chain")
    return (f"a = {a}\nb = {b}\nc = {c}\nflag = {draw(st.sampled_from(['True', 'False']))}\ntry:\n    r = {full}\n    print(repr(r))\n    if {full}:\n        print('T')\n    else:\n        print('F')\nexcept TypeError:\n    print('TypeError')\n", feats)


@st.composite
def fam_generator(draw):
    fn = draw(st.sampled_from(["any", "all", "sum", "min", "max"]))
    xs = draw(st.sampled_from(["[1, 2, 3]", "[]", "[0]", "range(4)", "[3, 1, 2]", '["b", "a"]', "[0, 0]"]))
    elt = draw(st.sampled_from(["i", "i", "i * 2", "bool(i)", "not i", "str(i)", "(i, 1)"])) if xs != '["b", "a"]' else draw(st.sampled_from(["i", "i * 2", "len(i)"]))
    cond = draw(st.sampled_from(["", "", " if i", " if i != 1"])) if xs != '["b", "a"]' else ""
    extra = ""
    if fn == "sum":
        extra = draw(st.sampled_from(["", "", ", 10", ", start=5"]))
    elif fn in ("min", "max"):
        extra = draw(st.sampled_from(["", ", default=None", ", key=lambda v: -v if isinstance(v, int) else v", ", default=7"]))
    trailing = draw(st.sampled_from(["", "", ","])) if not extra else ""
    call = f"{fn}([{elt} for i in {xs}{cond}]{trailing}{extra})"
    shadow = draw(st.integers(0, 9)) == 0
    pre = f"def {fn}(v, *a, **k):\n    return ('shadowed', list(v))\n" if shadow else ""
    return f"{pre}try:\n    r = {call}\n    print(repr(r))\nexcept (ValueError, TypeError) as e:\n    print(type(e).__name__)\n"


@st.composite
def fam_setliteral(draw):
    inner = draw(st.sampled_from(["[1, 2, 2]", "[]", "(1, 2)", "()", "[x, y]", "[(1, 2), (1, 2)]", '["a", "b"]', "[x]", "[1, 2,]"]))
    use = draw(st.sampled_from(["sorted(s, key=repr)", "len(s)", "1 in s"]))
    return f"x, y = 3, 3\ns = set({inner})\nprint({use})\nprint(type(s).__name__)\n"


@st.composite
def fam_fstr(draw):
    lit = draw(st.sampled_from(['f"plain"', "f'single'", 'f"{{braces}}"', 'f"a{{b}}c"', 'rf"raw\\d"', 'fr"raw\\n{{x}}"', 'f"""triple\nline"""', 'f"a" "b"', '"a" f"b"', 'f"%s" % 1', 'f"\\n"', 'F"UP"', 'f""', 'f"{x}"', 'f"}}"']))
    return f"x = 5\nv = {lit}\nprint(repr(v))\n"


@st.composite
def fam_walrus(draw):
    val = draw(st.sampled_from(["f()", "d.get('k')", "d.get('zz')", "f(), 1", "not f()", "f() or 0", "lambda: 1", "a == 1", "[1] if a else None", "a < 2 < 3", "None"]))
    test = draw(st.sampled_from(["v is None", "v is not None", "v", "not v", "v == 1", "v != None", "v in (1, None)", "v > 0 if isinstance(v, int) else False"]))
    after = draw(st.sampled_from(["", "", "print('after', repr(v) if not callable(v) else 'fn')\n", "def g():\n    return v\nprint(g() if not callable(v) else 'fn')\n"]))
    elif_ = draw(st.sampled_from(["", "", "elif v == 2:\n    print('two')\n"]))
    body_uses = draw(st.sampled_from(["print('in', repr(v) if not callable(v) else 'fn')", "print('in')"]))
    ctx = draw(st.sampled_from(["module", "func"]))
    core_ = f"v = {val}\nif {test}:\n    {body_uses}\n{elif_}else:\n    print('else')\n{after}"
    pre = "a = 1\nd = {'k': 0}\ndef f():\n    print('f called')\n    return 1\n"
    if ctx == "func":
        core_ = "def main():\n" + "".join("    " + l + "\n" for l in core_.splitlines()) + "main()\n"
    return pre + "try:\n" + "".join("    " + l + "\n" for l in core_.splitlines()) + "except TypeError:\n    print('TypeError')\n"


@st.composite
def fam_hasattr(draw):
    x = draw(st.sampled_from(["f", "C", "C()", "D()", "1", "'s'", "len", "lambda: 0", "None"]))
    form = draw(st.sampled_from(['hasattr({x}, "__call__")', "hasattr({x}, '__call__')", 'not hasattr({x}, "__call__")', 'hasattr({x}, "__call__") and True']))
    return f"def f():\n    pass\nclass C:\n    pass\nclass D:\n    def __call__(self):\n        return 1\nprint({form.format(x=x)})\n"


@st.composite
def fam_logging_warn(draw):
    level = draw(st.sampled_from(["DEBUG", "WARNING", "ERROR"]))
    call = draw(st.sampled_from(['logging.warn("plain")', 'logging.warn("x %s", 1)', 'log.warn("named %d", 2)', 'logging.getLogger("a.b").warn("deep")', 'logging.warn("p %s" % "q")']))
    return PRELUDE_LOG.format(level=level) + f"log = logging.getLogger('n')\n{call}\nprint('done')\n"


@st.composite
def fam_lazy_logging(draw):
    level = draw(st.sampled_from(["DEBUG", "INFO", "ERROR"]))
    fn = draw(st.sampled_from(["info", "debug", "error", "warning"]))
    recv = draw(st.sampled_from(["logging", "log"]))
    msg = draw(st.sampled_from([
        '"one %s" % x', '"two %s %s" % (x, y)', '"tup %s" % t', '"tup2 %s %s" % t2', '"dict %(a)s" % dd', '"pct %d%%" % n', '"plus " + x', '"a " + x + " b"', "'q\"uote ' + x", '"it\'s " + x', '"num " + str(n)',
        'x + " tail"', '"both " + x + y', '"%s " % x + "more"', '"r " + r"raw\\d"', '"bytes %s" % b"x"', '"none %s" % None', '"fmt %5.2f" % 3.14159', '"pct " + "100%"', '"%s" % (x,)',
    ]))
    call = f'{recv}.{fn}({msg})' if draw(st.integers(0, 4)) else f'{recv}.log(logging.{fn.upper()}, {msg})'
    return PRELUDE_LOG.format(level=level) + f"log = logging.getLogger('n')\nx, y, n = 'X', 'Y', 7\nt = ('T',)\nt2 = ('A', 'B')\ndd = {{'a': 1}}\ntry:\n    {call}\nexcept TypeError:\n    print('TypeError')\nprint('done')\n"


@st.composite
def fam_resource(draw):
    pat = draw(st.sampled_from([
        "f = open(p)\ndata = f.read()\nprint(data)\n",
        "f = open(p)\nprint(f.readline().strip())\nprint(f.closed)\n",
        "f = open(p)\ng = open(p)\nprint(f.read() == g.read())\n",
        "f = open(p)\nlines = f.readlines()\nprint(len(lines))\nf.close()\nprint(f.closed)\n",
        "f = open(p, 'a')\nf.write('more\\n')\nf.flush()\nprint(open(p).read())\n",
        "f = open(p)\nh = f\nprint(h.read())\n",
        "f = open(p)\nfn = lambda: f.read()\nprint(fn())\n",
        "f = open(p)\ndef rd():\n    return f.read()\nprint(rd())\n",
        "f = open(p)\nx = 1\nprint(x)\n",
        "f = open(p)\nfor line in f:\n    print(line.strip())\nprint('end')\n",
    ]))
    ctx = draw(st.sampled_from(["module", "func"]))
    body = pat
    if ctx == "func":
        body = "def main():\n" + "".join("    " + l + "\n" for l in pat.splitlines()) + "main()\n"
    return "import os, tempfile\np = os.path.join(tempfile.mkdtemp(dir='.'), 'data.txt')\nopen(p, 'w').write('l1\\nl2\\n')\n" + body


@st.composite
def fam_lock(draw):
    kind = draw(st.sampled_from(["Lock", "RLock", "Condition", "Semaphore"]))
    pre = draw(st.sampled_from(["", "lock = 'taken'\n", "lock = threading.Lock()\n", "rlock = 5\n"]))
    use = draw(st.sampled_from(["print('in')", "x = 1\n    print(x)"] + (["print(lock if isinstance(lock, str) else 'L')"] if pre.startswith("lock") else [])))
    after = "print(lock if isinstance(lock, str) else 'L')\n" if pre.startswith("lock") and draw(st.booleans()) else ""
    return f"import threading\n{pre}with threading.{kind}():\n    {use}\n{after}print('done')\n"


@st.composite
def fam_global(draw):
    """`global` at module level is a no-op the codemod removes; the same statement in a class body (or anywhere else)
    changes where the assignment lands and must stay.  (A module-level `global` before/after an assignment of the same
    name that CPython rejects does not compile and is discarded.)"""
    name = draw(st.sampled_from(["retries", "w", "cfg"]))
    site = draw(st.sampled_from([
        "global {n}\n{n} = 2\n",
        "if True:\n    global {n}\n    {n} = 4\n",
        "for _i in (1,):\n    global {n}\n    {n} = _i\n",
        "try:\n    global {n}\n    {n} = 6\nfinally:\n    pass\n",
        "class Settings:\n    global {n}\n    {n} = 5\n",
        "class Settings:\n    x = 0\n    class Inner:\n        global {n}\n        {n} = 7\n",
        "def f():\n    global {n}\n    {n} = 3\nf()\n",
        "class K:\n    def m(self):\n        global {n}\n        {n} = 8\nK().m()\n",
        "global {n}\nclass Settings:\n    global {n}\n    {n} = 9\n",
    ]))
    pre = draw(st.sampled_from(["", "", "other = 1\n"]))
    post = "print({n})\nprint(sorted(k for k in list(globals().get('Settings', type('E', (), {{}})).__dict__) if not k.startswith('__')))\n"
    return (pre + site + post).format(n=name)


MODS = ["os", "sys", "json", "math", "collections", "itertools", "re", "string"]


@st.composite
def fam_imports(draw):
    mods = draw(st.lists(st.sampled_from(MODS), min_size=2, max_size=5, unique=True))
    used = draw(st.lists(st.sampled_from(mods), min_size=1, max_size=len(mods), unique=True))
    bound = {}  # module -> name it is bound to
    items = []
    for m in mods:
        if draw(st.integers(0, 2)) == 0:
            bound[m] = m + "_al"
            items.append(f"{m} as {m}_al")
        else:
            bound[m] = m
            items.append(m)
    # group into statements: one module per statement or several per statement (`import a, b as c`)
    lines = []
    i = 0
    while i < len(items):
        k = draw(st.sampled_from([1, 1, 2, 3]))
        lines.append("import " + ", ".join(items[i:i + k]))
        i += k
    froms = draw(st.sampled_from([None, None, "from collections import OrderedDict, defaultdict", "from collections import OrderedDict as OD, defaultdict", "from os import path as p, sep"]))
    if froms:
        lines.insert(draw(st.integers(0, len(lines))), froms)
    if draw(st.integers(0, 3)) == 0:
        lines.insert(0, draw(st.sampled_from(["from __future__ import annotations, print_function", "from __future__ import division, annotations", "from __future__ import print_function", "from __future__ import generator_stop, annotations, division"])))
    uses = [f"print({bound[m]}.__name__)" for m in used]
    if froms and draw(st.booleans()):
        uses.append({"from collections import OrderedDict, defaultdict": "print(OrderedDict().__class__.__name__)", "from collections import OrderedDict as OD, defaultdict": "print(OD.__name__, defaultdict.__name__)", "from os import path as p, sep": "print(p.__name__, len(sep))"}[froms])
    return "\n".join(lines) + "\n\n" + "\n".join(uses) + "\nprint('ok')\n"


@st.composite
def fam_abstract(draw):
    dec = draw(st.sampled_from(["abstractproperty", "abstractclassmethod", "abstractstaticmethod"]))
    imp = draw(st.sampled_from(["import abc\n", "from abc import ABC, {d}\nimport abc\n"]))
    pref = "abc." if imp.startswith("import") else ""
    arg = {"abstractproperty": "self", "abstractclassmethod": "cls", "abstractstaticmethod": ""}[dec]
    impl = {"abstractproperty": "    @property\n    def foo(self):\n        return 1\n", "abstractclassmethod": "    @classmethod\n    def foo(cls):\n        return 1\n", "abstractstaticmethod": "    @staticmethod\n    def foo():\n        return 1\n"}[dec]
    access = {"abstractproperty": "B().foo", "abstractclassmethod": "B.foo()", "abstractstaticmethod": "B.foo()"}[dec]
    return imp.format(d=dec) + f"class A(abc.ABC):\n    @{pref}{dec}\n    def foo({arg}):\n        pass\nclass B(A):\n{impl}print({access})\ntry:\n    A()\n    print('instantiated')\nexcept TypeError:\n    print('abstract')\n"


@st.composite
def fam_sql(draw):
    val = draw(st.sampled_from(['"alice"', '"bob"', '""', '"two words"', '"42"', '"nobody"']))
    q = draw(st.sampled_from([
        '"SELECT name, age FROM users WHERE name = \'" + name + "\'"',
        'f"SELECT name, age FROM users WHERE name = \'{name}\'"',
        '"SELECT name, age FROM users WHERE name = \'%s\'" % name',
        '"SELECT name, age FROM users WHERE name = \'{}\'".format(name)',
        '"SELECT name FROM users WHERE name = \'" + name + "\' ORDER BY age"',
        '"SELECT name FROM users WHERE name LIKE \'" + name + "%\'"',
        '"SELECT name FROM users WHERE name = \'" + name + "\' AND age > " + str(0)',
    ]))
    via = draw(st.sampled_from(["direct", "var", "func"]))
    if via == "direct":
        body = f"rows = cur.execute({q}).fetchall()\n"
    elif via == "var":
        body = f"query = {q}\nrows = cur.execute(query).fetchall()\n"
    else:
        body = f"def lookup(name, cur):\n    sql = {q}\n    return cur.execute(sql).fetchall()\nrows = lookup(name, cur)\n"
    return ("import sqlite3\nconn = sqlite3.connect(':memory:')\ncur = conn.cursor()\ncur.execute('CREATE TABLE users (name TEXT, age INTEGER)')\n"
            "cur.executemany('INSERT INTO users VALUES (?, ?)', [('alice', 30), ('bob', 25), ('two words', 1), ('', 9), ('42', 42), ('alicia', 5)])\n"
            f"name = {val}\n{body}print(sorted(rows))\n")


FAMILIES = {
    "pixee:python/combine-startswith-endswith": fam_startswith,
    "pixee:python/combine-isinstance-issubclass": fam_isinstance,
    "pixee:python/invert-boolean-check": fam_invert,
    "pixee:python/use-generator": fam_generator,
    "pixee:python/use-set-literal": fam_setliteral,
    "pixee:python/remove-unnecessary-f-str": fam_fstr,
    "pixee:python/use-walrus-if": fam_walrus,
    "pixee:python/fix-hasattr-call": fam_hasattr,
    "pixee:python/fix-deprecated-logging-warn": fam_logging_warn,
    "pixee:python/lazy-logging": fam_lazy_logging,
    "pixee:python/fix-file-resource-leak": fam_resource,
    "pixee:python/bad-lock-with-statement": fam_lock,
    "pixee:python/remove-module-global": fam_global,
    "pixee:python/unused-imports": fam_imports,
    "pixee:python/order-imports": fam_imports,
    "pixee:python/remove-future-imports": fam_imports,
    "pixee:python/fix-deprecated-abstractproperty": fam_abstract,
    "pixee:python/sql-parameterization": fam_sql,
}


# ------------------------------------------------------------------ packages (relative imports)

PKG_MODULES = ["top", "top.base", "top.util", "top.app", "top.app.base", "top.app.util", "top.app.sub", "top.app.sub.base", "top.app.sub.util"]
PKG_LINES = [
    ("from ..util import TAG as parent_tag", "parent_tag"),
    ("from .util import TAG as sibling_tag", "sibling_tag"),
    ("from .. import util as up_util", "up_util.TAG"),
    ("from . import util as here_util", "here_util.TAG"),
    ("from ...base import TAG as root_tag", "root_tag"),
    ("from ..base import TAG as mid_tag", "mid_tag"),
    ("from .base import TAG as low_tag", "low_tag"),
    ("from ... import util as top_util", "top_util.TAG"),
    ("import os", "os.sep"),
    ("import sys", "sys.version_info[0]"),
    ("from json import dumps", "dumps(1)"),
    ("import math", None),
    ("from ..util import TAG as unused_tag", None),
]


@st.composite
def pkg_case(draw):
    """A module three packages deep whose import block mixes relative imports of every level with absolute ones;
    same-named modules exist at every level, so an import resolved at the wrong level prints another tag."""
    chosen = draw(st.lists(st.sampled_from(PKG_LINES), min_size=3, max_size=8, unique=True))
    body = "\n".join(l for l, _ in chosen) + "\n\n" + "".join(f"print({e!r}, {e})\n" for _, e in chosen if e) + "print('main done')\n"
    return body


def pkg_files(main_src):
    files = {}
    for m in PKG_MODULES:
        parts = m.split(".")
        is_pkg = any(o.startswith(m + ".") for o in PKG_MODULES)
        rel = "/".join(parts) + ("/__init__.py" if is_pkg else ".py")
        files[rel] = "" if is_pkg else f"TAG = {m!r}\n"
    files["top/app/sub/main.py"] = main_src
    return files


def judge_package(cid, main_src, stats):
    files = pkg_files(main_src)
    with runner.scratch("c08p") as sd:
        root = Path(sd)
        proj = root / "proj"
        runner.write_tree(proj, files)
        out = root / "out.codetf"
        res = runner.run_cli([str(proj), "--output", str(out), "--codemod-include", cid], cwd=str(root), output=out, timeout=600)
        if res.exit != 0:
            stats.discard(f"run-exit-{res.exit}")
            return
        after = {rel: (proj / rel).read_text() for rel in files}
        labels = ["codemod:" + cid, "package"]
        if after == files:
            stats.case([cid, main_src], False, labels + ["unchanged"])
            return
        driver = "import top.app.sub.main\n"
        o1 = execobs.observe(driver, root / "a", files=files)
        o2 = execobs.observe(driver, root / "b", files=after)
    if o1["timed_out"] or o2["timed_out"]:
        stats.discard("timeout")
        return
    stats.case([cid, main_src], bool(o1["stdout"].strip()), labels + ["changed"], sample={"codemod": cid, "before": main_src[:700], "after": after["top/app/sub/main.py"][:700], "stdout": o1["stdout"][:300]})
    if o1["stdout"] != o2["stdout"] or o1["exc"] != o2["exc"]:
        kind = "output-differs" if o1["stdout"] != o2["stdout"] else "exception-differs"
        stats.violation(cid, kind, {"codemod": cid, "package_main": main_src, "features": ["package"]},
                        json.dumps({"before": main_src, "after": after["top/app/sub/main.py"], "observed_before": o1, "observed_after": o2})[:7000], features=["package"])


PACKAGE_CODEMODS = ["pixee:python/order-imports", "pixee:python/unused-imports"]


def judge_batch(cid, programs, stats):
    """Transform all programs in one CLI run, then execute before/after."""
    rendered = []
    seen = set()
    for prog in programs:
        src, feats = prog if isinstance(prog, (tuple, list)) else (prog, [])
        if src in seen:
            continue
        seen.add(src)
        try:
            compile(src, "prog.py", "exec")
        except SyntaxError:
            stats.discard("generated-program-does-not-compile")
            continue
        rendered.append(({"codemod": cid, "src": src, "features": list(feats)}, {"data": src.encode(), "results": None, "labels": list(feats)}))
    if not rendered:
        return
    obs = engine.run_batch([cid], rendered)
    if obs.res.exit != 0 or obs.res.report is None:
        stats.discard(f"run-exit-{obs.res.exit}")
        return
    for f in obs.files:
        src = f.case["src"]
        labels = ["codemod:" + cid] + ["feat:" + x for x in f.case.get("features", [])]
        if f.after is None or not f.changed:
            stats.case([cid, src], False, labels + ["unchanged"])
            continue
        after = f.after.decode("utf-8", "replace")
        with runner.scratch("c08x") as sd:
            o1 = execobs.observe(src, Path(sd) / "a")
            o2 = execobs.observe(after, Path(sd) / "b")
        if o1["timed_out"] or o2["timed_out"]:
            stats.discard("timeout")
            continue
        nontriv = bool(o1["stdout"].strip())
        stats.case([cid, src], nontriv, labels + ["changed"], sample={"codemod": cid, "before": src[:700], "after": after[:700], "stdout": o1["stdout"][:200], "exc": o1["exc"]})
        if o1["stdout"] != o2["stdout"] or o1["exc"] != o2["exc"]:
            kind = "output-differs" if o1["stdout"] != o2["stdout"] else "exception-differs"
            stats.violation(cid, kind, {"codemod": cid, "src": src, "features": f.case.get("features", [])}, json.dumps({"before": src, "after": after, "observed_before": o1, "observed_after": o2})[:7000], features=f.case.get("features", []))


BUDGET = {"quick": {"n": 5, "batch": 24}, "thorough": {"n": 60, "batch": 40}}


def shards(tier, seed):
    import os

    b = BUDGET[tier]
    ids = sorted(FAMILIES)
    only = os.environ.get("CMV_ONLY")
    if only:
        ids = [c for c in ids if only in c]
    # rule-detected families first (slowest)
    ids.sort(key=lambda c: 0 if engine.kind_of(engine.codemod_by_id(c)) == "rule" else 1)
    buckets = [[] for _ in range(16)]
    for i, c in enumerate(ids):
        buckets[i % 16].append(c)
    return [{"codemods": bk, "seed": seed * 1000 + i, **b} for i, bk in enumerate(buckets) if bk]


def run_shard(spec):
    stats = core.Stats()
    for cid in spec["codemods"]:
        fam = FAMILIES[cid]
        # programs of the plain (semgrep-free) codemods are cheap: twice the batch
        batch = spec["batch"] * (1 if engine.kind_of(engine.codemod_by_id(cid)) == "rule" else 2)
        strat = st.lists(fam(), min_size=batch, max_size=batch)
        core.drive(strat, lambda progs, cid=cid: judge_batch(cid, progs, stats), spec["n"], spec["seed"] + engine.hash_str(cid) % 997)
        if cid in PACKAGE_CODEMODS:
            core.drive(pkg_case(), lambda src, cid=cid: judge_package(cid, src, stats), spec["n"] * 4, spec["seed"] + 5)
    return stats


def replay(case):
    st_ = core.Stats()
    if "package_main" in case:
        judge_package(case["codemod"], case["package_main"], st_)
        return st_.violations
    judge_batch(case["codemod"], [(case["src"], case.get("features", []))], st_)
    return st_.violations
