"""C03 -- the diff in the report is exactly the change made on disk."""
from __future__ import annotations

import json

from hypothesis import strategies as st

from .. import core, engine, harvest, progspace, runner, udiff
from . import _prog

ID = "C03"
LEVEL = "exploration"
TECHNIQUE = "Hypothesis-generated projects and codemod sequences through the real CLI; round-trip oracle: an own strict unified-diff applier folds the report's diffs over the pre-run bytes and must reproduce the bytes on disk; untouched files byte-compared from snapshots"
RULE = (
    "(a) every registered codemod on generated programs (program space of C01: contexts, CRLF/mixed EOL, BOM, no final newline, tabs, form feed, 1-3 sites); "
    "(b) projects with 1-4 multi-trigger source files (seeds of several detector-less codemods concatenated, each in its own scope) + a dependency "
    "manifest (requirements.txt / pyproject.toml / setup.py / setup.cfg in LF/CRLF/no-final-newline variants) under sequences of 2-4 codemods in one run, "
    "at least one of which adds a dependency in half of the cases.  Oracle: for each file fold the changesets naming it in report order, "
    "cur = patch(cur, diff) with exact context/position matching (lines split on \\n only); every changeset must move its file; final cur == bytes on disk "
    "up to the final newline; every path without a changeset is byte-identical; nothing is created or deleted.  Non-trivial = at least one changeset; "
    "distinct = distinct (codemod sequence, project bytes)."
)
ASSUMPTIONS = [
    "the report is the only source of 'the diff' (--output-format diff is accepted by the CLI but not implemented differently)",
    "presence of the file's final newline is not compared (tolerance granted by the statement; tests/test_diff.py pins '-X/+X' for a last line without newline)",
    "real (non dry-run) runs; UTF-8 files",
]

ADDERS = ["pixee:python/use-defusedxml", "pixee:python/harden-pickle-load", "pixee:python/flask-enable-csrf-protection"]

MANIFESTS = {
    "requirements.txt": "requests==2.31.0\n# pinned\nflask>=2.0\n",
    "pyproject.toml": '[project]\nname = "demo"\nversion = "0.1"\ndependencies = [\n    "requests>=2",\n]\n\n[tool.black]\nline-length = 100\n',
    "setup.py": 'from setuptools import setup\n\nsetup(\n    name="demo",\n    version="0.1",\n    install_requires=[\n        "requests>=2",\n    ],\n)\n',
    "setup.cfg": "[metadata]\nname = demo\n\n[options]\ninstall_requires =\n    requests>=2\n    flask\n\n[flake8]\nmax-line-length = 100\n",
}
MANIFESTS["setup.py+site"] = MANIFESTS["setup.py"] + "\nEXTRAS = set([\"dev\", \"test\"])\n"
# ... and a site of the dependency-adding codemod itself: one codemod then reports two changesets for setup.py
MANIFESTS["setup.py+addersite"] = "from xml.etree.ElementTree import parse\n" + MANIFESTS["setup.py"] + "\nMETADATA = parse(\"pkg.xml\")\n"
DEFUSEDXML = "pixee:python/use-defusedxml"
# a legal source file that is not UTF-8 (PEP 263 cookie): it cannot be processed and must stay byte-identical
LATIN1_SOURCE = b"# -*- coding: latin-1 -*-\n# caf\xe9\nNAME = 'caf\xe9'\nx = set([1, 2])\n"


# manifests that exist but cannot take a requirement: the writer returns None and the next store is tried
UNUSABLE = {
    "pyproject.toml": '[project]\nname = "demo"\nversion = "0.1"\ndynamic = ["dependencies"]\n',
    "setup.py": 'from setuptools import setup\n\nREQS = open("requirements.txt").read().split()\n\nsetup(name="demo", install_requires=REQS)\n',
    "setup.cfg": "[metadata]\nname = demo\n\n[flake8]\nmax-line-length = 100\n",
}


def manifest_files(spec):
    """spec = [kind, variant] | [kind, variant, [unusable kinds...]]  ->  {relpath: bytes}"""
    kind, var = spec[0], spec[1]
    out = {}
    if kind != "none":
        out[kind.split("+")[0]] = manifest_bytes(kind, var)
    for u in (spec[2] if len(spec) > 2 else []):
        if u != kind.split("+")[0]:
            out[u] = UNUSABLE[u].encode()
    return out


def fold_file(rel, before: bytes, after: bytes | None, changesets, feats):
    """-> list of (kind, detail)"""
    out = []
    try:
        cur = before.decode("utf-8")
        disk = after.decode("utf-8") if after is not None else None
    except UnicodeDecodeError:
        # a file that is not UTF-8 cannot be read by the pipelines (it is reported as failed): a changeset for it means
        # it was rewritten from a lossy decoding, and a text diff cannot describe what happened to its bytes
        if after is not None and after != before:
            out.append(("undecodable-file-rewritten", rel))
        return out
    if disk is None:
        return [("file-with-changeset-deleted", rel)]
    for codemod, cs in changesets:
        if not cs.get("diff"):
            out.append(("empty-diff", f"{codemod} {rel}"))
            continue
        try:
            nxt = udiff.apply(cs["diff"], cur)
        except udiff.DiffError as e:
            out.append(("diff-does-not-apply", json.dumps({"codemod": codemod, "file": rel, "why": str(e), "diff": cs["diff"], "content_before_this_codemod": cur})[:5000]))
            return out
        if udiff.equal_upto_final_newline(nxt, cur):
            out.append(("changeset-without-change", f"{codemod} {rel}"))
        cur = nxt
    if not udiff.equal_upto_final_newline(cur, disk):
        why = udiff.check_roundtrip("--- \n+++ \n@@ -0,0 +0,0 @@\n", "", "") or ""
        g, w = udiff.split_lines(cur), udiff.split_lines(disk)
        k = next((i for i, (x, y) in enumerate(zip(g, w)) if x != y), min(len(g), len(w)))
        out.append(("patched-content-differs-from-disk", json.dumps({"file": rel, "first_difference_at_line": k + 1, "patched": g[k:k + 2], "disk": w[k:k + 2],
                                                                   "diffs": [c[1]["diff"] for c in changesets]})[:5000]))
    return out


def judge_project(obs: engine.BatchObs, stats, comp, case, base_feats, labels, sample=None):
    rep = obs.res.report
    named = {}
    for r in rep["results"]:
        for cs in r.get("changeset", []):
            named.setdefault(cs["path"], []).append((r["codemod"], cs))
    created, deleted, modified = runner.snap_diff(obs.before, obs.after)
    nontriv = bool(named)
    stats.case([comp, core.sha(json.dumps(sorted((k, core.sha(v[1]) if v[0] == "f" else v[0]) for k, v in obs.before.items())))], nontriv, labels + (["changeset"] if nontriv else []), sample=sample)
    vs = []
    for rel in modified:
        if rel not in named:
            vs.append(("file-changed-without-changeset", rel))
    for rel in created:
        vs.append(("path-created", rel))
    for rel in deleted:
        vs.append(("path-deleted", rel))
    for rel, css in named.items():
        b = obs.before.get(rel)
        a = obs.after.get(rel)
        if b is None or b[0] != "f":
            vs.append(("changeset-names-nonexistent-file", rel))
            continue
        feats = list(base_feats)
        vs += [(k, d) for k, d in fold_file(rel, b[1], a[1] if a and a[0] == "f" else None, css, feats)]
        if len(css) > 1:
            stats.labels["file-touched-by-%d-codemods" % len(css)] += 1
        if rel.rsplit("/", 1)[-1] in MANIFESTS:
            stats.labels["manifest-changeset"] += 1
    for kind, detail in vs:
        stats.violation(comp, kind, case, detail, features=base_feats)


# ---------------------------------------------------------------------------- (a) single codemod on programs


def handle_programs(cid, kind, rendered, stats):
    obs = engine.run_batch([cid], rendered)
    if obs.res.exit != 0 or obs.res.report is None:
        stats.discard(f"run-exit-{obs.res.exit}")
        return
    # judge file by file so that the failing program is known directly
    named = {}
    for r in obs.res.report["results"]:
        for cs in r.get("changeset", []):
            named.setdefault(cs["path"], []).append((r["codemod"], cs))
    for f in obs.files:
        labels = ["a", "kind:" + kind, "codemod:" + cid] + f.labels
        css = named.get(f.rel, [])
        feats = [l for l in f.labels if l.startswith(("op:", "fop:"))]
        stats.case([cid, core.sha(f.before)], bool(css), labels + (["changeset"] if css else []), sample=_prog.sample_of(f) if css else None)
        case = {"program": f.case}
        if f.changed and not css:
            stats.violation(cid, "file-changed-without-changeset", case, f.rel, features=feats)
        if css:
            for k, d in fold_file(f.rel, f.before, f.after, css, feats):
                stats.violation(cid, k, case, d, features=feats)
    created, deleted, modified = runner.snap_diff(obs.before, obs.after)
    prog_rels = {f.rel for f in obs.files}
    for rel in list(created) + list(deleted) + [m for m in modified if m not in prog_rels]:
        stats.violation(cid, "other-path-touched", {"programs": [f.case for f in obs.files]}, rel, features=[])


# ---------------------------------------------------------------------------- (b) sequences on multi-trigger projects


SET_LITERAL = "pixee:python/use-set-literal"


def rule_ids():
    return [cid for cid, k in engine.all_codemods() if k == "rule" and harvest.harvest().get(cid, {}).get("seeds")]


def plain_ids():
    return [cid for cid, k in engine.all_codemods() if k == "plain" and harvest.harvest().get(cid, {}).get("seeds")]


@st.composite
def project_case(draw):
    ids = plain_ids()
    n = draw(st.integers(2, 4))
    seq = draw(st.lists(st.sampled_from(ids), min_size=n, max_size=n, unique=True))
    if draw(st.booleans()) and not (set(seq) & set(ADDERS)):
        seq[draw(st.integers(0, len(seq) - 1))] = draw(st.sampled_from(ADDERS))
        seq = list(dict.fromkeys(seq))
    h = harvest.harvest()
    files = []
    # one case in four: a semgrep-rule-detected codemod and use-set-literal are both selected (either order) and a
    # statement-level call of the rule codemod's trigger is wrapped in set([...]): two codemods of different kinds
    # rewrite the same line, and the reported diffs must still compose in report order
    overlap = draw(st.integers(0, 3)) == 0
    if overlap:
        rule = draw(st.sampled_from(rule_ids()))
        pair = [SET_LITERAL, rule] if draw(st.booleans()) else [rule, SET_LITERAL]
        seq = [c for c in seq if c not in pair][:1] + pair if draw(st.booleans()) else pair + [c for c in seq if c not in pair][:1]
        parts = [{"code": draw(st.sampled_from(h[rule]["seeds"])), "results": None, "ops": [["insetlist", draw(st.integers(0, 3))], ["wrap", draw(st.sampled_from(["def", "method"]))]]} for _ in range(draw(st.integers(1, 2)))]
        files.append({"codemod": rule, "parts": parts, "file_ops": draw(progspace.file_ops())})
    for _ in range(draw(st.integers(1, 3)) - (1 if overlap else 0)):
        parts = []
        for cid in draw(st.lists(st.sampled_from([c for c in seq if h.get(c, {}).get("seeds")]), min_size=2, max_size=4)):
            parts.append({"code": draw(st.sampled_from(h[cid]["seeds"])), "results": None, "ops": [["wrap", draw(st.sampled_from(["def", "def", "method", "nested"]))]] + draw(progspace.part_ops())})
        files.append({"codemod": seq[0], "parts": parts, "file_ops": draw(progspace.file_ops())})
    mkind = draw(st.sampled_from(["none", "requirements.txt", "requirements.txt", "pyproject.toml", "setup.py", "setup.py", "setup.cfg"]))
    if mkind == "setup.py" and set(seq) & set(ADDERS) and draw(st.booleans()):
        # setup.py is itself a source file: it carries a site of a codemod that runs after the dependency writer
        mkind = "setup.py+site"
        seq = [c for c in seq if c != SET_LITERAL] + [SET_LITERAL]
    elif mkind == "setup.py" and draw(st.integers(0, 2)) == 0:
        mkind = "setup.py+addersite"
        if DEFUSEDXML not in seq:
            seq = seq + [DEFUSEDXML]
    mvar = draw(st.sampled_from(["lf", "lf", "crlf", "nofinalnl", "trailing-blank", "trailing-ws", "leading-blank", "crlf+trailing-blank"]))
    unusable = draw(st.lists(st.sampled_from(sorted(UNUSABLE)), max_size=2, unique=True)) if draw(st.integers(0, 2)) == 0 else []
    return {"sequence": seq, "files": files, "manifest": [mkind, mvar, unusable], "latin1": draw(st.integers(0, 3)) == 0}


def manifest_bytes(kind, var):
    text = MANIFESTS[kind]
    if "trailing-blank" in var:
        text = text + "\n\n"
    if var == "trailing-ws":
        text = text + "   \n" if not kind.startswith("setup.py") else text + "\n  \n"
    if var == "leading-blank":
        text = "\n\n" + text
    if "crlf" in var:
        text = text.replace("\n", "\r\n")
    elif var == "nofinalnl":
        text = text.rstrip("\n")
    return text.encode()


def eval_project(case, stats):
    rendered = []
    for fc in case["files"]:
        rd = progspace.render(fc, "code.py")
        if rd["level"] == 0:
            stats.discard("render-invalid")
            continue
        rendered.append((fc, rd))
    if not rendered:
        return
    mkind, mvar = case["manifest"][:2]
    extra = manifest_files(case["manifest"])
    if case.get("latin1"):
        extra["src/latin1_module.py"] = LATIN1_SOURCE
    obs = engine.run_batch(case["sequence"], rendered, extra_files=extra)
    if obs.res.exit != 0 or obs.res.report is None:
        stats.discard(f"run-exit-{obs.res.exit}")
        stats.labels["b:run-failed"] += 1
        return
    labels = ["b", f"b:seq={len(case['sequence'])}", "b:manifest=" + mkind + ("/" + mvar if mkind != "none" else "")]
    if len(case["manifest"]) > 2 and case["manifest"][2]:
        labels.append("b:unusable-manifest-first")
    if set(case["sequence"]) & set(ADDERS):
        labels.append("b:has-dependency-adder")
    if any(op[0] == "insetlist" for fc in case["files"] for part in fc["parts"] for op in part["ops"]):
        labels.append("b:plain-and-rule-codemod-on-one-line")
    feats = ["manifest:" + mkind, "manifest-variant:" + mvar] if mkind != "none" else []
    judge_project(obs, stats, "sequence", {"project": case}, feats, labels,
                  sample={"sequence": case["sequence"], "manifest": case["manifest"], "files": [rd["data"].decode("utf-8", "replace")[:400] for _, rd in rendered]})


# ---------------------------------------------------------------------------- campaign


def shards(tier, seed):
    out = engine.codemod_shards(tier, seed + 29, per_shard_quick=2, per_shard_thorough=16, batch=6)
    for s in out:
        s["kind"] = "programs"
    nproj = 6 if tier == "quick" else 120
    out += [{"kind": "projects", "n": nproj, "seed": seed * 1000 + 500 + i} for i in range(16)]
    return out


def run_shard(spec):
    stats = core.Stats()
    if spec["kind"] == "programs":
        engine.drive_programs(spec, lambda cid, kind, rendered: handle_programs(cid, kind, rendered, stats), stats)
    else:
        core.drive(project_case(), lambda c: eval_project(c, stats), spec["n"], spec["seed"])
    return stats


def replay(case):
    st_ = core.Stats()
    if "project" in case:
        eval_project(case["project"], st_)
    else:
        prog = case["program"]
        rd = progspace.render(prog, "code.py")
        cid = prog["codemod"]
        handle_programs(cid, engine.kind_of(engine.codemod_by_id(cid)), [(prog, rd)], st_)
    return st_.violations
