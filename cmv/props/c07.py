"""C07 -- re-running a codemod on its own output changes nothing (fixed point)."""
from __future__ import annotations

import json

from .. import core, engine, progspace, runner
from . import _prog

ID = "C07"
LEVEL = "exploration"
TECHNIQUE = "Hypothesis-generated programs; idempotence law run(run(P)) == run(P) checked with two real CLI invocations (identical argv and result files) and tree snapshots"
RULE = (
    "program space of C01 for every registered codemod (several sites per file, nested contexts, aliases, layout variants; SAST codemods reuse the "
    "same result file unchanged, as the statement says; rule-detected codemods go through semgrep in both runs).  Run 1 with --output, snapshot, "
    "run 2 with identical argv: no file may change and no result of report 2 may carry a changeset.  Non-trivial = run 1 changed the file; "
    "distinct = distinct (codemod, input bytes)."
)
ASSUMPTIONS = [
    "both runs are complete CLI invocations on the same directory with the same argv; the report of run 2 is read from the same --output path",
]


def judge_pair(f, cid, kind, labels, stats, changed2, cs2, after2):
    key = [cid, core.sha(f.before)]
    if not (f.after is not None and f.changed):
        stats.case(key, False, labels)
        # a file untouched by run 1 must be untouched by run 2 as well (same input, same run)
        if changed2 or cs2:
            stats.violation(cid, "second-run-changes-file-first-run-left-alone", {"program": f.case},
                            json.dumps({"before": f.before.decode("utf-8", "replace"), "after2": (after2 or b"").decode("utf-8", "replace")})[:5000],
                            features=[l for l in f.labels if l.startswith(("op:", "fop:"))])
        return
    stats.case(key, True, labels + ["changed"], sample=_prog.sample_of(f))
    if changed2 or cs2:
        kind_v = "second-run-modifies-file" if changed2 else "second-run-reports-changeset"
        stats.violation(cid, kind_v, {"program": f.case},
                        json.dumps({"before": f.before.decode("utf-8", "replace"), "after_run1": f.after.decode("utf-8", "replace"),
                                    "after_run2": (after2 or b"").decode("utf-8", "replace"), "changesets_run2": [c[1].get("diff") for c in cs2]})[:7000],
                        features=[l for l in f.labels if l.startswith(("op:", "fop:"))])


def run_pair(cid, kind, rendered, stats):
    with runner.scratch("c07") as root:
        obs = engine.run_batch([cid], rendered, keep_root=root)
        if obs.res.exit != 0 or obs.res.report is None:
            stats.discard(f"run1-exit-{obs.res.exit}")
            return
        res2, b2, a2 = engine.rerun(root, obs.argv)
        if res2.exit != 0 or res2.report is None:
            stats.discard(f"run2-exit-{res2.exit}")
            return
        for f in obs.files:
            labels = ["kind:" + kind, "codemod:" + cid] + f.labels
            changed2 = b2.get(f.rel) != a2.get(f.rel)
            cs2 = [(r["codemod"], cs) for r in res2.report["results"] for cs in r.get("changeset", []) if cs["path"] == f.rel]
            after2 = a2.get(f.rel, (None, None))[1] if a2.get(f.rel, ("x",))[0] == "f" else None
            judge_pair(f, cid, kind, labels, stats, changed2, cs2, after2)


def shards(tier, seed):
    return engine.codemod_shards(tier, seed + 13, per_shard_quick=2, per_shard_thorough=24, batch=8)


def run_shard(spec):
    stats = core.Stats()
    engine.drive_programs(spec, lambda cid, kind, rendered: run_pair(cid, kind, rendered, stats), stats)
    return stats


def replay(case):
    prog = case["program"]
    rd = progspace.render(prog, "code.py")
    cid = prog["codemod"]
    st = core.Stats()
    run_pair(cid, engine.kind_of(engine.codemod_by_id(cid)), [(prog, rd)], st)
    return st.violations


def minimise(case, kind=None):
    import copy

    def judge_dummy(*a):
        pass

    # reuse the generic minimiser with this module's replay
    from . import _prog as P

    orig = P.replay_program
    try:
        P.replay_program = lambda c, j, e=(): replay(c)
        return P.minimise_program(case, None, kind)
    finally:
        P.replay_program = orig
