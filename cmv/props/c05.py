"""C05 -- exactly the files selected by the include/exclude patterns are touched.

direct: code_directory.match_files on generated path/pattern lists vs. an own glob reference;
e2e:    generated trees (test/build/venv dirs, non-Python files, symlinked files and dirs inside and
        outside the target) x pattern lists, find-and-fix mode and SAST mode; the set of files whose
        bytes changed (from snapshots) must equal trigger files ∩ reference selection, nothing else
        in the sandbox may change.
"""
from __future__ import annotations

import json
import os
import re
from pathlib import Path

from hypothesis import strategies as st

from .. import core, runner

ID = "C05"
LEVEL = "exploration"
TECHNIQUE = "Hypothesis-generated trees and glob lists vs. an independently written glob/selection reference model; changed files read from before/after snapshots"
RULE = (
    "direct: Hypothesis draws relative path lists and include/exclude glob lists ('*', '**', '?', '[ab]', literal paths, directory prefixes, "
    "':N' suffixes, None = defaults) for match_files; e2e: trees over {src,pkg,app,tests,test,build,dist,venv,.venv,site-packages,__tests__,.git,docs,deep/nested} "
    "x {a.py,b.py,conftest.py,test_x.py,setup.py,notes.txt,data.json,.coveragerc} with/without the trigger `x = set([1, 2])`, symlinked files/dirs "
    "(inside and to a sibling outside directory) x pattern lists, in find-and-fix mode (pixee:python/use-set-literal) and SAST mode "
    "(sonar:python/fix-assert-tuple with a finding on every trigger file).  Non-trivial (e2e) = at least one trigger file selected and at least one "
    "not selected; (direct) = result neither empty nor everything.  Distinct = distinct (tree, patterns, mode)."
)
ASSUMPTIONS = [
    "glob semantics are fnmatch's as the defaults rely on ('*' also crosses '/', whole relative POSIX path must match); re-implemented here, not imported",
    "default excludes are the list frozen below from the pinned commit (test, build, virtualenv, VCS, cache directories); default include = '*.py' files",
    "non-Python files hold no fixable construct; symlink loops and permission-denied directories are not generated",
    "include patterns with ':N' use N = the trigger's line, exclude patterns with ':N' use a line without a construct, so that C13's line semantics do not interfere",
]

FROZEN_DEFAULT_EXCLUDES = [
    "test/**", "tests/**", "**/__test__/**", "**/__tests__/**", "conftest.py", "build/**", "dist/**", "venv/**",
    "**/site-packages/**", ".venv/**", ".tox/**", ".nox/**", ".eggs/**", ".git/**", ".mypy_cache/**", ".pytest_cache/**",
    ".hypothesis/**", ".coverage*",
]

# ------------------------------------------------------------------ reference glob


def glob_to_re(pat: str) -> re.Pattern:
    i, n, out = 0, len(pat), []
    while i < n:
        c = pat[i]
        i += 1
        if c == "*":
            out.append(".*")
        elif c == "?":
            out.append(".")
        elif c == "[":
            j = i
            if j < n and pat[j] == "!":
                j += 1
            if j < n and pat[j] == "]":
                j += 1
            while j < n and pat[j] != "]":
                j += 1
            if j >= n:
                out.append(re.escape("["))
            else:
                body = pat[i:j]
                i = j + 1
                neg = body.startswith("!")
                if neg:
                    body = body[1:]
                body = body.replace("\\", "\\\\")
                out.append("[" + ("^" if neg else "") + re.escape(body).replace("\\-", "-") + "]")
        else:
            out.append(re.escape(c))
    return re.compile("(?s:" + "".join(out) + r")\Z")


def gmatch(pat, rel):
    return glob_to_re(pat).match(rel) is not None


def ref_selected(rel, include, exclude, default_include, default_exclude):
    """include/exclude: list or None (None = defaults)."""
    if include is None:
        inc_ok = default_include(rel)
    else:
        inc_ok = any(gmatch(p.split(":")[0], rel) for p in include)
    exc = default_exclude if exclude is None else [p for p in exclude if ":" not in p]
    return inc_ok and not any(gmatch(p, rel) for p in exc)


# ------------------------------------------------------------------ strategies

DIRS = ["", "src", "pkg", "app", "tests", "test", "build", "dist", "venv", ".venv", "lib/site-packages", "src/__tests__", ".git", "docs", "deep/nested/x", "src/tests"]
FILES = ["a.py", "b.py", "conftest.py", "test_x.py", "setup.py", "notes.txt", "data.json", ".coveragerc", "c.pyi"]


@st.composite
def pattern(draw, rels, for_exclude):
    kind = draw(st.sampled_from(["literal", "dirprefix", "ext", "star-name", "dstar-name", "qmark", "class", "star", "line", "partial"]))
    rel = draw(st.sampled_from(rels)) if rels else "a.py"
    d, _, name = rel.rpartition("/")
    if kind == "literal":
        return rel
    if kind == "dirprefix":
        top = rel.split("/")[0] if "/" in rel else name
        return top + draw(st.sampled_from(["/*", "/**", "*", "/**/*.py"]))
    if kind == "ext":
        return draw(st.sampled_from(["*.py", "**/*.py", "*.txt", "*.py*", "**.py"]))
    if kind == "star-name":
        return "*" + name
    if kind == "dstar-name":
        return "**/" + name
    if kind == "qmark":
        return (d + "/" if d else "") + "?" + name[1:]
    if kind == "class":
        return (d + "/" if d else "") + "[ab]" + name[1:]
    if kind == "star":
        return draw(st.sampled_from(["*", "**", "*/*", "src/*", "*/a.py", "[!t]*"]))
    if kind == "partial":
        a = draw(st.integers(0, len(rel)))
        return rel[:a] + "*"
    # line pattern
    base = draw(st.sampled_from([rel, "*" + name, "**/" + name, "*.py"]))
    return base + (":99" if for_exclude else ":1")


@st.composite
def pattern_lists(draw, rels):
    mode = draw(st.sampled_from(["defaults", "include", "exclude", "both", "both"]))
    inc = exc = None
    if mode in ("include", "both"):
        inc = draw(st.lists(pattern(rels, False), min_size=1, max_size=3))
    if mode in ("exclude", "both"):
        exc = draw(st.lists(pattern(rels, True), min_size=1, max_size=3))
    return inc, exc


@st.composite
def direct_case(draw):
    n = draw(st.integers(1, 8))
    rels = draw(st.lists(st.builds(lambda d, f: (d + "/" if d else "") + f, st.sampled_from(DIRS), st.sampled_from(FILES)), min_size=n, max_size=n, unique=True))
    inc, exc = draw(pattern_lists(rels))
    return {"level": "direct", "rels": rels, "include": inc, "exclude": exc}


@st.composite
def tree_case(draw):
    n = draw(st.integers(2, 9))
    rels = draw(st.lists(st.builds(lambda d, f: (d + "/" if d else "") + f, st.sampled_from(DIRS), st.sampled_from(FILES)), min_size=n, max_size=n, unique=True))
    files = {}
    for r in rels:
        trig = draw(st.integers(0, 3)) > 0
        files[r] = "trigger" if (trig and r.endswith(".py")) else "plain"
    if not any(v == "trigger" for v in files.values()):
        files["src/a.py"] = "trigger"
    # symlinks: [linkrel, kind]
    links = []
    pys = [r for r, v in files.items() if v == "trigger"]
    for _ in range(draw(st.integers(0, 2))):
        kind = draw(st.sampled_from(["file-inside", "file-outside", "dir-outside", "dir-inside"]))
        name = draw(st.sampled_from(["ln_a.py", "ln_b.py", "lnd", "src/lnk.py", "pkg/lnd"]))
        if kind.startswith("file") and not name.endswith(".py"):
            name = name + ".py"
        if kind.startswith("dir") and name.endswith(".py"):
            continue
        if name in files or any(l[0] == name for l in links) or any(r.startswith(name + "/") for r in files):
            continue
        links.append([name, kind, draw(st.sampled_from(pys))])
    # faf: detector-less find-and-fix; sast: Sonar-driven; rule: semgrep-rule-detected find-and-fix (the detector sees
    # the tree itself); dep: a find-and-fix codemod that also adds a requirement to the project's manifest
    mode = draw(st.sampled_from(["faf", "faf", "sast", "rule", "dep"]))
    allrels = list(files) + [l[0] for l in links]
    inc, exc = draw(pattern_lists(allrels))
    if mode in ("rule", "dep") and inc is not None:
        # the site of these two-line triggers is the call on line 2 (the ':N' of an include pattern names the site's line)
        inc = [p[:-2] + ":2" if p.endswith(":1") else p for p in inc]
    # dep mode: requirements.txt is a regular file in the target, or a symlink to a file outside it
    manifest = draw(st.sampled_from(["regular", "symlink-outside", "symlink-outside"])) if mode == "dep" else None
    return {"level": "e2e", "files": files, "links": links, "mode": mode, "include": inc, "exclude": exc, "manifest": manifest}


# ------------------------------------------------------------------ evaluation


def eval_direct(case, stats=None):
    from codemodder.code_directory import match_files

    parent = Path("/cmv/parent")
    rels, inc, exc = case["rels"], case["include"], case["exclude"]
    expected = sorted(r for r in rels if ref_selected(r, inc, exc, lambda r: r.endswith(".py"), FROZEN_DEFAULT_EXCLUDES))
    vs = []
    try:
        got = match_files(parent, [parent / r for r in rels], exc, inc)
        got_rel = [str(p.relative_to(parent)) for p in got]
    except Exception as e:
        got_rel = None
        vs.append(dict(component="match_files", kind="raises", features=[type(e).__name__], case=case, detail=repr(e)))
    if got_rel is not None:
        if sorted(got_rel) != expected:
            feats = []
            if set(got_rel) - set(expected):
                feats.append("extra")
            if set(expected) - set(got_rel):
                feats.append("missing")
            if len(got_rel) != len(set(got_rel)):
                feats.append("duplicate")
            vs.append(dict(component="match_files", kind="selection-differs", features=feats, case=case,
                           detail=json.dumps({"expected": expected, "got": got_rel, "include": inc, "exclude": exc})))
    if stats is not None:
        labels = ["direct", "direct:inc=" + ("default" if inc is None else "user"), "direct:exc=" + ("default" if exc is None else "user")]
        if any(":" in p for p in (inc or []) + (exc or [])):
            labels.append("line-pattern")
        stats.case(case, 0 < len(expected) < len(rels), labels, sample={"case": case, "expected": expected})
        for v in vs:
            stats.violation(**v)
    return vs


TRIG_FAF = "x = set([1, 2])\n"
TRIG_SAST = "assert (1,2,3)\n"
TRIG_RULE = "import random\nx = random.random()\n"
TRIG_DEP = "from xml.etree.ElementTree import parse\net = parse('some.xml')\n"
PLAIN = "y = 1\n"
MODE_CODEMOD = {"faf": "pixee:python/use-set-literal", "rule": "pixee:python/secure-random", "dep": "pixee:python/use-defusedxml"}


def build_tree(case, sd, mode):
    proj, outside = sd / "proj", sd / "outside"
    trig = {"faf": TRIG_FAF, "sast": TRIG_SAST, "rule": TRIG_RULE, "dep": TRIG_DEP}[mode]
    files = {}
    for r, kind in case["files"].items():
        if r.endswith(".py"):
            files[r] = trig if kind == "trigger" else PLAIN
        else:
            files[r] = "some text, not python: set([1, 2])\n" if kind == "trigger" else "plain\n"
    runner.write_tree(proj, files)
    runner.write_tree(outside, {"o.py": trig, "odir/p.py": trig})
    if case.get("manifest") == "regular":
        runner.write_tree(proj, {"requirements.txt": "requests==2.31.0\n"})
    elif case.get("manifest") == "symlink-outside":
        runner.write_tree(outside, {"shared-requirements.txt": "requests==2.31.0\n"})
        os.symlink(str(outside / "shared-requirements.txt"), proj / "requirements.txt")
    for name, kind, target in case["links"]:
        p = proj / name
        p.parent.mkdir(parents=True, exist_ok=True)
        if kind == "file-inside":
            os.symlink(os.path.relpath(proj / target, p.parent), p)
        elif kind == "file-outside":
            os.symlink(str(outside / "o.py"), p)
        elif kind == "dir-outside":
            os.symlink(str(outside / "odir"), p)
        else:
            d = (proj / target).parent
            if d == proj:
                os.symlink(str(outside / "odir"), p)
            else:
                os.symlink(os.path.relpath(d, p.parent), p)
    return proj, outside


def sonar_doc(rels):
    return {"issues": [{"rule": "python:S5905", "status": "OPEN", "component": "proj:" + r, "key": f"k{i}",
                        "textRange": {"startLine": 1, "endLine": 1, "startOffset": 8, "endOffset": 15}} for i, r in enumerate(rels)]}


def run_tree(case, sd, inc, exc, tag):
    mode = case["mode"]
    root = sd / tag
    root.mkdir()
    proj, outside = build_tree(case, root, mode)
    argv = [str(proj), "--output", str(root / "out.codetf")]
    if mode in MODE_CODEMOD:
        argv += ["--codemod-include", MODE_CODEMOD[mode]]
    else:
        trig = [r for r, k in case["files"].items() if k == "trigger" and r.endswith(".py")]
        (root / "sonar.json").write_text(json.dumps(sonar_doc(trig)))
        argv += ["--codemod-include", "sonar:python/fix-assert-tuple", "--sonar-issues-json", str(root / "sonar.json")]
    if inc is not None:
        argv += ["--path-include", ",".join(inc)]
    if exc is not None:
        argv += ["--path-exclude", ",".join(exc)]
    before = runner.snapshot(root)
    res = runner.run_cli(argv, cwd=str(root), output=root / "out.codetf", timeout=600)
    after = runner.snapshot(root)
    return res, before, after, argv


def eval_tree(case, stats=None):
    vs = []
    inc, exc, mode = case["include"], case["exclude"], case["mode"]
    trig_rels = sorted(r for r, k in case["files"].items() if k == "trigger" and r.endswith(".py"))
    with runner.scratch("c05") as sd:
        # calibration: patterns that select everything -> confirms the trigger files by construction
        cal, cb, ca, _ = run_tree(case, sd, ["*"], ["zz-none-zz"], "cal")
        if cal.exit != 0:
            raise core.HarnessError(f"C05 calibration run failed exit={cal.exit}: {cal.stderr[-600:]}")
        _, _, cmod = runner.snap_diff(cb, ca)
        cal_changed = sorted(m[len("proj/"):] for m in cmod if m.startswith("proj/") and m != "proj/requirements.txt")
        if cal_changed != trig_rels:
            raise core.HarnessError(f"C05 calibration: trigger files {trig_rels} but select-everything run changed {cal_changed}")
        res, before, after, argv = run_tree(case, sd, inc, exc, "run")
    if res.exit != 0:
        vs.append(dict(component="cli:" + mode, kind="run-fails", features=[], case=case, detail=json.dumps({"argv": argv[1:], "exit": res.exit, "stderr": res.stderr[-800:]})))
    created, deleted, modified = runner.snap_diff(before, after)
    created = [c for c in created if c != "out.codetf"]
    if mode != "sast":
        expected = sorted(r for r in trig_rels if ref_selected(r, inc, exc, lambda r: r.endswith(".py"), FROZEN_DEFAULT_EXCLUDES))
    else:
        expected = sorted(r for r in trig_rels if ref_selected(r, inc, [] if exc is None else exc, lambda r: r.endswith(".py"), []))
    got = sorted(m[len("proj/"):] for m in modified if m.startswith("proj/") and m != "proj/requirements.txt")
    other = [m for m in modified if not m.startswith("proj/")]
    if case.get("manifest") == "regular" and expected and res.exit == 0 and "proj/requirements.txt" not in modified:
        vs.append(dict(component="cli:" + mode, kind="requirement-not-added-to-manifest-in-target", features=[mode], case=case, detail=json.dumps({"changed": got})))
    det = {"argv": [a for a in argv[1:] if not a.startswith("/")], "include": inc, "exclude": exc, "mode": mode, "trigger_files": trig_rels, "links": case["links"], "expected_changed": expected, "changed": got}
    if res.exit == 0 and got != expected:
        feats = [mode]
        if set(got) - set(expected):
            feats.append("changed-unselected")
        if set(expected) - set(got):
            feats.append("selected-not-fixed")
        vs.append(dict(component="cli:" + mode, kind="changed-set-differs", features=feats, case=case, detail=json.dumps(det)))
    if other or created or deleted:
        vs.append(dict(component="cli:" + mode, kind="touched-outside-or-created", features=[mode], case=case,
                       detail=json.dumps({"modified_outside_target": other, "created": created, "deleted": deleted, **det})))
    for name, kind, _ in case["links"]:
        k = "proj/" + name
        if before.get(k, (None,))[0] == "l" and after.get(k, (None,))[0] != "l":
            vs.append(dict(component="cli:" + mode, kind="symlink-replaced", features=[mode], case=case, detail=json.dumps(det)))
    if stats is not None:
        nontriv = 0 < len(expected) < len(trig_rels)
        labels = ["e2e", "e2e:" + mode, "e2e:inc=" + ("default" if inc is None else "user"), "e2e:exc=" + ("default" if exc is None else "user")]
        if case["links"]:
            labels.append("e2e:symlinks")
        if case.get("manifest"):
            labels.append("e2e:manifest=" + case["manifest"])
        if any(":" in p for p in (inc or []) + (exc or [])):
            labels.append("e2e:line-pattern")
        if inc is None and exc is None and any(not ref_selected(r, None, None, lambda r: True, FROZEN_DEFAULT_EXCLUDES) for r in trig_rels):
            labels.append("e2e:default-excludes-bite")
        stats.case(case, nontriv, labels, sample=det)
        for v in vs:
            stats.violation(**v)
    return vs


BUDGET = {"quick": {"direct": 1200, "e2e": 14, "fuzz": (1, 1500)}, "thorough": {"direct": 40000, "e2e": 260, "fuzz": (8, 150000)}}

# coverage-guided stage: same strategy, same oracle, bytes chosen by libFuzzer (cmv/fuzz.py)
FUZZ_TARGETS = {"direct": (lambda: direct_case(), lambda c, stats: eval_direct(c, stats))}


def shards(tier, seed):
    b = BUDGET[tier]
    out = [{"kind": "e2e", "n": b["e2e"], "seed": seed * 1000 + 50 + i} for i in range(16)]
    out += [{"kind": "fuzz", "runs": b["fuzz"][1], "seed": seed * 1000 + 900 + i} for i in range(b["fuzz"][0])]
    out += [{"kind": "direct", "n": b["direct"], "seed": seed * 1000 + i} for i in range(16)]
    return out


def run_shard(spec):
    stats = core.Stats()
    if spec["kind"] == "fuzz":
        from .. import fuzz

        return fuzz.fuzz_shard(__name__, "direct", spec["runs"], spec["seed"])
    if spec["kind"] == "direct":
        core.drive(direct_case(), lambda c: eval_direct(c, stats), spec["n"], spec["seed"])
    else:
        core.drive(tree_case(), lambda c: eval_tree(c, stats), spec["n"], spec["seed"])
    return stats


def replay(case):
    return eval_direct(case) if case.get("level") == "direct" else eval_tree(case)
