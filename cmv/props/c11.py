"""C11 -- results do not depend on scheduling, worker count, hash seed or sibling files."""
from __future__ import annotations

import copy
import json
import os
import shutil
import subprocess
from pathlib import Path

from hypothesis import strategies as st

from .. import core, engine, harvest, progspace, runner

ID = "C11"
LEVEL = "exploration"
TECHNIQUE = "metamorphic generated search: the same project under different worker counts, per-file delay schedules (injected at the libcst.parse_module seam), file creation orders, PYTHONHASHSEED values and sibling subsets must give the same normalised outcome; an in-flight monitor at the same seam bounds concurrency"
RULE = (
    "projects of 4-14 generated trigger files x codemod selections (detector-less, rule-detected, SAST with Sonar and semgrep SARIF together, wildcard includes) x "
    "(a) worker counts w in {1,2,3,8} x Hypothesis-drawn per-file delay schedules (0-60 ms sleeps inside libcst.parse_module force completion orders different from "
    "input order) x file creation order permutations: normalise(report)+tree must be identical to the w=1, no-delay, sorted-creation run; (b) fresh interpreters with "
    "PYTHONHASHSEED in {0,1,2,3,random} through /venv/bin/codemodder: identical normalised outcome; (c) sibling independence: for codemods that do not inspect sibling "
    "files, bytes and changeset of f in run(D) equal those in run({f}); (d) monitor: the number of files simultaneously inside parse_module never exceeds --max-workers "
    "(each call sleeps >= 30 ms, >= 8 files).  Non-trivial = >= 2 files changed and (for a/d) w >= 2 with an observed completion order different from the input order, "
    "or (b) two different hash seeds, or (c) a proper subset; distinct = distinct (project, selection, configuration)."
)
ASSUMPTIONS = [
    "the harness owns per-file delays, not the GIL: interleavings inside one file's transformation are not enumerated (one FileContext per file, results merged after executor shutdown)",
    "normalise() removes run.elapsed, run.commandLine and the absolute project directory; everything else, including the order of results, changesets and change entries, must be equal",
    "the creation-order dimension needs a file system whose directory enumeration follows creation order: those runs are placed on /dev/shm (tmpfs) when it exists; on ext4 enumeration is hash order and the dimension is vacuous (label creation-order-effective is only set when two enumerations were observed to differ)",
    "sibling-independent = every codemod except the Django settings pair (which look for manage.py) and dependency writers (manifest discovery)",
]

DELAY_MARK = "# __F%d__"


def tmpfs_base():
    """Directory enumeration follows creation order on tmpfs (on ext4 it is hash order and does not vary), so the
    creation-order dimension runs on /dev/shm when it is available."""
    d = "/dev/shm"
    if os.path.isdir(d) and os.access(d, os.W_OK):
        return os.path.join(d, "cmv-scratch")
    return None


def seam_schedule(delays_ms, monitor_file, min_sleep_ms):
    """In the child: libcst.parse_module sleeps delays[k] ms for the file carrying marker k; tracks in-flight calls."""

    def seam():
        import re
        import threading
        import time

        import libcst

        orig = libcst.parse_module
        lock = threading.Lock()
        state = {"cur": 0, "max": 0, "order": []}

        def parse_module(source, *a, **k):
            m = re.search(r"# __F(\d+)__", source) if isinstance(source, str) else None
            if m is None:
                return orig(source, *a, **k)
            idx = int(m.group(1))
            with lock:
                state["cur"] += 1
                state["max"] = max(state["max"], state["cur"])
            try:
                d = max(min_sleep_ms, delays_ms[idx] if idx < len(delays_ms) else 0)
                time.sleep(d / 1000.0)
                return orig(source, *a, **k)
            finally:
                with lock:
                    state["cur"] -= 1
                    state["order"].append(idx)
                    with open(monitor_file, "w") as f:
                        json.dump({"max": state["max"], "order": state["order"]}, f)

        libcst.parse_module = parse_module

    return seam


def normalise(report, proj: Path):
    rep = copy.deepcopy(report)
    rep["run"].pop("elapsed", None)
    rep["run"].pop("commandLine", None)
    rep["run"]["directory"] = "<proj>"
    for r in rep["results"]:
        r["failedFiles"] = [os.path.relpath(f if os.path.isabs(f) else os.path.join(os.path.dirname(str(proj)), f), proj) for f in (r.get("failedFiles") or [])]
    return rep


PLAIN = ["pixee:python/use-set-literal", "pixee:python/fix-mutable-params", "pixee:python/unused-imports", "pixee:python/use-generator", "pixee:python/literal-or-new-object-identity",
         "pixee:python/remove-unnecessary-f-str", "pixee:python/combine-startswith-endswith", "pixee:python/fix-assert-tuple", "pixee:python/order-imports", "pixee:python/use-walrus-if",
         "pixee:python/harden-pickle-load", "pixee:python/numpy-nan-equality", "pixee:python/exception-without-raise"]


@st.composite
def project(draw, nmin=4, nmax=14, sels=None):
    sel = draw(st.sampled_from(sels or ["plain", "plain", "plain", "rule", "sast-two-tools", "wildcard", "cross-wildcard"]))
    h = harvest.harvest()
    if sel == "plain":
        cms = draw(st.lists(st.sampled_from(PLAIN), min_size=1, max_size=4, unique=True))
        include = ",".join(cms)
    elif sel == "rule":
        cms = [draw(st.sampled_from(["pixee:python/secure-random", "pixee:python/requests-verify", "pixee:python/harden-pyyaml"]))] + draw(st.lists(st.sampled_from(PLAIN), max_size=2, unique=True))
        include = ",".join(cms)
    elif sel == "cross-wildcard":
        # patterns that match codemods of several collections: the order inside a wildcard is registry order
        names = draw(st.lists(st.sampled_from(["fix-assert-tuple", "numpy-nan-equality", "exception-without-raise", "literal-or-new-object-identity", "fix-float-equality", "fix-missing-self-or-cls"]), min_size=1, max_size=2, unique=True))
        cms = ["pixee:python/" + n for n in names]
        include = ",".join("*" + n + "*" for n in names)
    elif sel == "wildcard":
        cms = ["pixee:python/use-set-literal", "pixee:python/use-generator", "pixee:python/use-walrus-if", "pixee:python/use-defusedxml"]
        include = "pixee:python/use-*"
    else:
        cms = draw(st.lists(st.sampled_from([c for c, k in engine.all_codemods() if k == "sast" and c.startswith("sonar")]), min_size=1, max_size=3, unique=True)) + \
            draw(st.lists(st.sampled_from([c for c, k in engine.all_codemods() if k == "sast" and c.startswith("semgrep:") and h.get(c, {}).get("sast")]), min_size=1, max_size=2, unique=True))
        include = "sonar:*,semgrep:*"
    n = draw(st.integers(nmin, nmax))
    files = []
    for k in range(n):
        cid = draw(st.sampled_from([c for c in cms if (h.get(c, {}).get("seeds") or h.get(c, {}).get("sast"))]))
        seeds, sast = engine.seeds_for(cid)
        if sast:
            s = draw(st.sampled_from(sast))
            files.append({"codemod": cid, "parts": [{"code": s["code"], "results": s["results"], "ops": []}], "file_ops": []})
        else:
            files.append({"codemod": cid, "parts": [{"code": draw(st.sampled_from(seeds)), "results": None, "ops": draw(st.sampled_from([[], [["wrap", "def"]]]))}], "file_ops": []})
    return {"selection": sel, "codemods": cms, "include": include, "files": files}


def materialise(case, root: Path, order=None, mark=True, case_twins=False):
    rendered = []
    for k, fc in enumerate(case["files"]):
        rd = dict(progspace.render(fc, "code.py"))
        if mark:
            rd["data"] = rd["data"] + ((DELAY_MARK % k) + "\n").encode()
        rendered.append((fc, rd))
    # creation order: build_project writes in dict order; reorder by writing into a staging dict
    extra = None
    if case_twins and not any(rd.get("results") for _, rd in rendered):
        # paths that differ only in letter case (a case-sensitive file system keeps both): any ordering that folds case
        # leaves their relative order to set iteration, i.e. to the hash seed
        d0, d1 = rendered[0][1]["data"], rendered[-1][1]["data"]
        extra = {"pkg/Settings.py": d0, "pkg/settings.py": d1, "Tools/run.py": d1, "tools/run.py": d0, "pkg/SETTINGS.py": d0}
    proj, rels, res_argv = engine.build_project(root, case["codemods"], rendered, extra)
    if order:
        # re-create the files in the requested order (directory enumeration order on most file systems follows creation)
        data = {rel: (proj / rel).read_bytes() for rel in rels}
        for rel in rels:
            (proj / rel).unlink()
        for i in order:
            if i < len(rels):
                (proj / rels[i]).write_bytes(data[rels[i]])
        for rel in rels:
            if not (proj / rel).exists():
                (proj / rel).write_bytes(data[rel])
    return proj, rels, res_argv


def run_config(case, root: Path, workers, delays=None, order=None, min_sleep=0):
    proj, rels, res_argv = materialise(case, root, order)
    out = root / "out.codetf"
    argv = [str(proj), "--output", str(out), "--codemod-include", case["include"], "--max-workers", str(workers)] + res_argv
    mon = root / "monitor.json"
    seams = [seam_schedule(delays or [], str(mon), min_sleep)] if (delays is not None or min_sleep) else []
    res = runner.run_cli(argv, cwd=str(root), output=out, seams=seams, timeout=900)
    tree = runner.snapshot(proj)
    monitor = json.loads(mon.read_text()) if mon.exists() else None
    return res, tree, rels, monitor, proj


def outcome(res, tree, proj):
    return {"exit": res.exit, "report": normalise(res.report, proj) if res.report else None, "tree": {k: core.sha(v[1]) if v[0] == "f" else v[0] for k, v in tree.items()}}


def first_difference(a, b, path=""):
    if type(a) != type(b):
        return path, a, b
    if isinstance(a, dict):
        for k in sorted(set(a) | set(b)):
            if a.get(k) != b.get(k):
                return first_difference(a.get(k), b.get(k), path + "/" + str(k))
    if isinstance(a, list):
        if len(a) != len(b):
            return path + "/len", len(a), len(b)
        for i, (x, y) in enumerate(zip(a, b)):
            if x != y:
                return first_difference(x, y, path + f"/{i}")
    return path, a, b


@st.composite
def sched_case(draw):
    p = draw(project())
    n = len(p["files"])
    return {"kind": "schedule", "project": p, "workers": draw(st.sampled_from([2, 3, 8])), "delays": draw(st.lists(st.integers(0, 60), min_size=n, max_size=n)),
            "order": draw(st.permutations(list(range(n))))}


def eval_schedule(case, stats=None):
    st_ = stats or core.Stats()
    v0 = len(st_.violations)
    p = case["project"]
    with runner.scratch("c11a", tmpfs_base()) as r0, runner.scratch("c11b", tmpfs_base()) as r1:
        res0, tree0, rels, _, proj0 = run_config(p, Path(r0), 1)
        res1, tree1, _, mon, proj1 = run_config(p, Path(r1), case["workers"], case["delays"], list(case["order"]), min_sleep=0)
        o0, o1 = outcome(res0, tree0, proj0), outcome(res1, tree1, proj1)
    feats = ["selection:" + p["selection"], f"w={case['workers']}"]
    labels = ["schedule"] + feats + [f"nfiles={len(rels)}"]
    if res0.exit != 0 or res0.report is None:
        st_.discard(f"reference-run-exit-{res0.exit}")
        st_.case(case, False, labels)
        return st_.violations[v0:]
    changed = sum(1 for r in res0.report["results"] for _ in r.get("changeset", []))
    reordered = bool(mon) and mon["order"] != sorted(mon["order"])
    st_.case(case, changed >= 2 and reordered, labels + (["completion-order-differs-from-input-order"] if reordered else []),
             sample={"selection": p["selection"], "include": p["include"], "workers": case["workers"], "delays": case["delays"], "completion_order": (mon or {}).get("order")})
    if o0 != o1:
        where, a, b = first_difference(o0, o1)
        st_.violation("run", "outcome-depends-on-workers-schedule-or-creation-order", case, json.dumps({"where": where, "w1_no_delay": a, "configured": b, "workers": case["workers"]}, default=str)[:4000], features=feats)
    return st_.violations[v0:]


@st.composite
def monitor_case(draw):
    p = draw(project(nmin=8, nmax=14, sels=["plain"]))
    return {"kind": "monitor", "project": p, "workers": draw(st.sampled_from([1, 1, 2, 3]))}


def eval_monitor(case, stats=None):
    st_ = stats or core.Stats()
    v0 = len(st_.violations)
    p = case["project"]
    with runner.scratch("c11m") as r0:
        res, tree, rels, mon, proj = run_config(p, Path(r0), case["workers"], [], None, min_sleep=30)
    labels = ["monitor", f"w={case['workers']}", f"nfiles={len(rels)}"]
    if res.exit != 0 or not mon:
        st_.discard("monitor-run-failed")
        st_.case(case, False, labels)
        return st_.violations[v0:]
    st_.case(case, len(mon["order"]) >= 8, labels + [f"max-in-flight={mon['max']}"], sample={"workers": case["workers"], "files": len(rels), "max_in_flight": mon["max"]})
    if mon["max"] > case["workers"]:
        st_.violation("executor", "more-files-in-flight-than-max-workers", case, json.dumps({"max_workers": case["workers"], "max_in_flight": mon["max"], "files": len(rels)}), features=[f"w={case['workers']}"])
    return st_.violations[v0:]


@st.composite
def sibling_case(draw):
    p = draw(project(nmin=3, nmax=8))
    n = len(p["files"])
    return {"kind": "sibling", "project": p, "keep": draw(st.integers(0, n - 1))}


def eval_sibling(case, stats=None):
    st_ = stats or core.Stats()
    v0 = len(st_.violations)
    p = case["project"]
    k = case["keep"]
    single = copy.deepcopy(p)
    single["files"] = [p["files"][k]]
    with runner.scratch("c11s") as r0, runner.scratch("c11t") as r1:
        resD, treeD, relsD, _, projD = run_config(p, Path(r0), 1)
        # the single-file project keeps the file's name and marker: rebuild the full project and delete the others
        proj, rels, res_argv = materialise(p, Path(r1))
        for i, rel in enumerate(rels):
            if i != k:
                (proj / rel).unlink()
        out = Path(r1) / "out.codetf"
        resS = runner.run_cli([str(proj), "--output", str(out), "--codemod-include", p["include"]] + res_argv, cwd=str(r1), output=out, timeout=900)
        treeS = runner.snapshot(proj)
    rel = relsD[k]
    labels = ["sibling", "selection:" + p["selection"], f"nfiles={len(relsD)}"]
    if resD.exit != 0 or resS.exit != 0 or not resD.report or not resS.report:
        st_.discard("sibling-run-failed")
        st_.case(case, False, labels)
        return st_.violations[v0:]
    csD = [(r["codemod"], cs) for r in resD.report["results"] for cs in r.get("changeset", []) if cs["path"] == rel]
    csS = [(r["codemod"], cs) for r in resS.report["results"] for cs in r.get("changeset", []) if cs["path"] == rel]
    st_.case(case, bool(csD) and len(relsD) > 1, labels, sample={"file": rel, "siblings": len(relsD) - 1, "include": p["include"]})
    if treeD.get(rel) != treeS.get(rel):
        st_.violation("run", "file-outcome-depends-on-siblings", case, json.dumps({"file": rel, "with_siblings": (treeD.get(rel) or ("", b""))[1].decode("utf-8", "replace")[:800], "alone": (treeS.get(rel) or ("", b""))[1].decode("utf-8", "replace")[:800]}), features=["selection:" + p["selection"]])
    elif csD != csS:
        st_.violation("run", "file-changeset-depends-on-siblings", case, json.dumps({"file": rel, "with_siblings": csD, "alone": csS}, default=str)[:4000], features=["selection:" + p["selection"]])
    return st_.violations[v0:]


@st.composite
def hash_case(draw):
    p = draw(project(nmin=3, nmax=6, sels=["plain", "cross-wildcard", "cross-wildcard", "sast-two-tools", "wildcard"]))
    return {"kind": "hashseed", "project": p, "seeds": ["0", draw(st.sampled_from(["1", "2", "3", "random", "4242"]))], "default_set": False}


def eval_hashseed(case, stats=None):
    st_ = stats or core.Stats()
    v0 = len(st_.violations)
    p = case["project"]
    outs = []
    for hs in case["seeds"]:
        with runner.scratch("c11h") as r0:
            root = Path(r0)
            proj, rels, res_argv = materialise(p, root, case_twins=True)
            out = root / "out.codetf"
            argv = [str(proj), "--output", str(out)] + (["--codemod-include", p["include"]] if not case.get("default_set") else []) + res_argv
            env = {k: v for k, v in os.environ.items()}
            env["PYTHONHASHSEED"] = hs
            env["PYTHONPATH"] = os.path.join(os.environ.get("CMV_REPO", "/repo"), "src")
            pr = subprocess.run(["/venv/bin/python", "-c", "import sys; from codemodder.codemodder import run; sys.exit(run(sys.argv[1:]))"] + argv,
                                cwd=str(root), env=env, capture_output=True, timeout=1800)
            rep = json.loads(out.read_text()) if out.exists() else None
            tree = runner.snapshot(proj)
            res = runner.RunResult(pr.returncode, pr.stdout.decode("utf-8", "replace"), pr.stderr.decode("utf-8", "replace"), rep)
            outs.append((hs, outcome(res, tree, proj), res))
    labels = ["hashseed", "selection:" + ("default-set" if case.get("default_set") else p["selection"]), "seeds=" + "/".join(case["seeds"])]
    if any(o[2].exit != 0 or o[1]["report"] is None for o in outs):
        st_.discard("hashseed-run-failed")
        st_.error("C11 hash-seed subprocess run failed: " + outs[0][2].stderr[-300:])
        st_.case(case, False, labels)
        if len({o[2].exit for o in outs}) > 1:
            st_.violation("run", "exit-status-depends-on-hash-seed", case, json.dumps({o[0]: o[2].exit for o in outs}), features=["selection:" + p["selection"]])
        return st_.violations[v0:]
    nchg = sum(1 for r in outs[0][1]["report"]["results"] for _ in r.get("changeset", []))
    st_.case(case, nchg >= 1, labels, sample={"include": p["include"], "seeds": case["seeds"], "results": [r["codemod"] for r in outs[0][1]["report"]["results"]][:8]})
    base = outs[0]
    for hs, o, _ in outs[1:]:
        if o != base[1]:
            where, a, b = first_difference(base[1], o)
            st_.violation("run", "outcome-depends-on-hash-seed", case, json.dumps({"where": where, "seed_" + base[0]: a, "seed_" + hs: b}, default=str)[:4000], features=["selection:" + ("default-set" if case.get("default_set") else p["selection"])])
            break
    return st_.violations[v0:]


BUDGET = {"quick": {"schedule": 3, "monitor": 1, "sibling": 3, "hashseed": 1, "default": 0}, "thorough": {"schedule": 30, "monitor": 6, "sibling": 30, "hashseed": 8, "default": 2}}


def shards(tier, seed):
    b = BUDGET[tier]
    out = []
    for i in range(b["default"]):
        out.append({"kind": "default-hash", "i": i, "seed": seed * 1000 + 900 + i})
    for i in range(16):
        out.append({"kind": "mix", "b": b, "seed": seed * 1000 + i})
    return out


def run_shard(spec):
    stats = core.Stats()
    if spec["kind"] == "default-hash":
        # whole default selection (registry order decides the order of results) under two hash seeds
        from hypothesis import given, seed as hseed

        holder = []

        def grab(c):
            holder.append(c)

        core.drive(project(nmin=3, nmax=4), grab, 1, spec["seed"])
        c = {"kind": "hashseed", "project": holder[0], "seeds": ["0", ["1", "2", "3"][spec["i"] % 3]], "default_set": True}
        c["project"]["selection"] = "plain"
        eval_hashseed(c, stats)
        return stats
    b = spec["b"]
    core.drive(sched_case(), lambda c: eval_schedule(c, stats), b["schedule"], spec["seed"])
    core.drive(monitor_case(), lambda c: eval_monitor(c, stats), b["monitor"], spec["seed"] + 1)
    core.drive(sibling_case(), lambda c: eval_sibling(c, stats), b["sibling"], spec["seed"] + 2)
    core.drive(hash_case(), lambda c: eval_hashseed(c, stats), b["hashseed"], spec["seed"] + 3)
    return stats


def replay(case):
    return {"schedule": eval_schedule, "monitor": eval_monitor, "sibling": eval_sibling, "hashseed": eval_hashseed}[case["kind"]](case)
