"""C17 -- exactly the requested codemods run, once each, in the requested order.

Two levels: (direct) CodemodRegistry.match_codemods on the real and on synthetic registries
against a reference selection function written from the property statement; (e2e) the CLI
on a one-file project, executed sequence read from the log and from results[].codemod.
"""
from __future__ import annotations

import json
import re

from hypothesis import strategies as st

from .. import core, runner

ID = "C17"
LEVEL = "exploration"
TECHNIQUE = "property-based testing (Hypothesis) against a reference selection model; direct API + end-to-end CLI"
RULE = (
    "Hypothesis draws include/exclude lists (real ids, unknown ids, '*' patterns as prefix/infix/suffix/"
    "several stars/overlapping, literal also matched by a pattern, repeats) x eligibility mode x registry "
    "(real 101-codemod registry, synthetic registries with ids over [a-z0-9:/-] that are prefixes/infixes of "
    "each other); the selected sequence must equal the reference selection.  Non-trivial = the reference "
    "selects at least one codemod and does not select all eligible ones, or a pattern/unknown id is present; "
    "distinct = distinct (registry, include, exclude, mode)."
)
ASSUMPTIONS = [
    "'*' is the only wildcard (any run of characters, whole-id match); ids and patterns stay in the id alphabet [a-z0-9:/-] (nothing documents other characters)",
    "an explicit --codemod-exclude list replaces the default exclusions (pinned by tests/codemods/test_include_exclude.py::test_exclude)",
    "SAST eligibility iff --sonar-issues-json or --sarif is given (statement); include lists ignore eligibility (pinned by test_include_exclude.py)",
]


# ------------------------------------------------------------------ reference model


def glob_match(pat: str, s: str) -> bool:
    """'*' = any run of characters; everything else literal; whole string."""
    parts = pat.split("*")
    if len(parts) == 1:
        return pat == s
    if not s.startswith(parts[0]):
        return False
    pos = len(parts[0])
    for mid in parts[1:-1]:
        i = s.find(mid, pos)
        if i < 0:
            return False
        pos = i + len(mid)
    last = parts[-1]
    return len(s) - pos >= len(last) and s.endswith(last)


def ref_select(reg, include, exclude, sast_mode, default_excluded):
    """reg: list of (id, origin) in registry order."""
    ids = [i for i, _ in reg]
    if include:
        out = []
        for item in include:
            cands = [i for i in ids if glob_match(item, i)] if "*" in item else ([item] if item in ids else [])
            for c in cands:
                if c not in out:
                    out.append(c)
        return out
    excl = exclude if exclude else default_excluded
    out = []
    for i, origin in reg:
        eligible = (origin != "pixee") if sast_mode else (origin == "pixee")
        if not eligible:
            continue
        if any((glob_match(e, i) if "*" in e else e == i) for e in excl):
            continue
        out.append(i)
    return out


# ------------------------------------------------------------------ strategies

ALPHA = "abcdxy019:/-"


def id_strategy():
    return st.text(ALPHA, min_size=1, max_size=8)


@st.composite
def synthetic_registry(draw):
    base = draw(st.lists(id_strategy(), min_size=1, max_size=5, unique=True))
    ids = list(base)
    # ids that extend / embed other ids
    for b in base:
        k = draw(st.integers(0, 2))
        for _ in range(k):
            pre = draw(st.text(ALPHA, max_size=3))
            suf = draw(st.text(ALPHA, max_size=3))
            ids.append(pre + b + suf)
    ids = list(dict.fromkeys(ids))
    origins = [draw(st.sampled_from(["pixee", "pixee", "sonar", "semgrep", "defectdojo"])) for _ in ids]
    return [[i, o] for i, o in zip(ids, origins)]


@st.composite
def pattern_from(draw, ids):
    s = draw(st.sampled_from(ids))
    kind = draw(st.sampled_from(["literal", "prefix", "suffix", "infix", "inner", "multi", "star", "unknown", "unknownpat"]))
    n = len(s)
    if kind == "literal":
        return s
    if kind == "star":
        return "*"
    if kind == "unknown":
        return s + draw(st.sampled_from(["-zz", "x", "/q"]))
    if kind == "unknownpat":
        return "*zzq" + draw(st.sampled_from(["", "*"]))
    a = draw(st.integers(0, n))
    b = draw(st.integers(a, n))
    if kind == "prefix":  # keep prefix, star at end
        return s[:b] + "*"
    if kind == "suffix":
        return "*" + s[a:]
    if kind == "infix":
        return "*" + s[a:b] + "*"
    if kind == "inner":
        return s[:a] + "*" + s[b:]
    c = draw(st.integers(b, n))
    return s[:a] + "*" + s[b:c] + "*"


@st.composite
def direct_case(draw, real_ids):
    use_real = draw(st.booleans())
    if use_real:
        reg = None
        ids = real_ids
    else:
        reg = draw(synthetic_registry())
        ids = [i for i, _ in reg]
    mode = draw(st.sampled_from(["include", "exclude", "neither"]))
    items = draw(st.lists(pattern_from(ids), min_size=1, max_size=6)) if mode != "neither" else []
    return {
        "level": "direct",
        "registry": reg,
        "include": items if mode == "include" else None,
        "exclude": items if mode == "exclude" else None,
        "sast": draw(st.booleans()),
    }


# ------------------------------------------------------------------ evaluation


class _Stub:
    default_extensions = [".py"]

    def __init__(self, cid, origin):
        self.id = cid
        self.origin = origin

    def __repr__(self):
        return self.id


def build_registry(reg):
    from codemodder.registry import CodemodCollection, CodemodRegistry, load_registered_codemods

    if reg is None:
        return load_registered_codemods()
    r = CodemodRegistry()
    by_origin = {}
    for i, o in reg:
        by_origin.setdefault(o, [])
    # keep global order: add one collection per codemod (collections are only containers)
    for i, o in reg:
        r.add_codemod_collection(CodemodCollection(origin=o, codemods=[_Stub(i, o)]))
    return r


_REAL = {}


def real_registry():
    if "r" not in _REAL:
        from codemodder.registry import DEFAULT_EXCLUDED_CODEMODS, load_registered_codemods

        r = load_registered_codemods()
        _REAL["r"] = r
        _REAL["reg"] = [[c.id, c.origin] for c in r.codemods]
        _REAL["dex"] = list(DEFAULT_EXCLUDED_CODEMODS)
    return _REAL


def features_of(case, expected, got):
    f = []
    items = case.get("include") or case.get("exclude") or []
    f.append("include" if case.get("include") else ("exclude" if case.get("exclude") else "default"))
    if any("*" in i for i in items):
        f.append("pattern")
    if len(got) != len(set(got)):
        f.append("duplicate-selected")
    if set(got) - set(expected):
        f.append("extra-selected")
    if set(expected) - set(got):
        f.append("missing-selected")
    if set(got) == set(expected) and len(got) == len(expected) and got != expected:
        f.append("order")
    return f


def eval_direct(case, stats: core.Stats | None = None):
    R = real_registry()
    if case["registry"] is None:
        registry, reg = R["r"], R["reg"]
    else:
        registry, reg = build_registry(case["registry"]), case["registry"]
    inc, exc = case["include"], case["exclude"]
    expected = ref_select(reg, inc, exc, case["sast"], R["dex"])
    vs = []
    try:
        got = [c.id for c in registry.match_codemods(list(inc) if inc else None, list(exc) if exc else None, sast_only=case["sast"])]
    except Exception as e:  # the statement gives no input for which selection may raise
        got = None
        vs.append(dict(component="match_codemods", kind="raises", features=[type(e).__name__], case=case, detail=repr(e)))
    if got is not None and got != expected:
        vs.append(
            dict(
                component="match_codemods",
                kind="selection-differs",
                features=features_of(case, expected, got),
                case=case,
                detail=json.dumps({"expected": expected, "got": got, "include": inc, "exclude": exc, "sast": case["sast"]})[:3000],
            )
        )
    if stats is not None:
        eligible = [i for i, o in reg if ((o != "pixee") if case["sast"] else (o == "pixee"))]
        items = inc or exc or []
        nontriv = (0 < len(expected) and set(expected) != set(eligible)) or any("*" in i for i in items)
        labels = [
            "direct",
            "real-registry" if case["registry"] is None else "synthetic-registry",
            "mode:" + ("include" if inc else "exclude" if exc else "default"),
            "sast" if case["sast"] else "find-and-fix",
        ]
        if any("*" in i for i in items):
            labels.append("has-pattern")
        if inc and len(inc) != len(set(inc)):
            labels.append("repeated-item")
        if inc and any("*" in i for i in inc) and any("*" not in i and any(glob_match(p, i) for p in inc if "*" in p) for i in inc):
            labels.append("literal+pattern-overlap")
        stats.case(case, nontriv, labels, sample={"case": case, "expected": expected[:6], "n_expected": len(expected)})
        for v in vs:
            stats.violation(**v)
    return vs


# ---- e2e

CHEAP = None


def cheap_ids():
    """Codemods without a detector (no semgrep run): the only ones used in e2e include lists."""
    global CHEAP
    if CHEAP is None:
        R = real_registry()
        CHEAP = [c.id for c in R["r"].codemods if c.detector is None]
    return CHEAP


SONAR_DOC = json.dumps({"issues": [], "hotspots": []})
SARIF_DOC = json.dumps({"version": "2.1.0", "runs": [{"tool": {"driver": {"name": "Semgrep OSS", "rules": []}}, "results": []}]})
DD_DOC = json.dumps({"results": []})


@st.composite
def e2e_case(draw):
    ids = cheap_ids()
    R = real_registry()
    all_ids = [i for i, _ in R["reg"]]
    mode = draw(st.sampled_from(["include", "include", "include", "exclude", "neither"]))
    elig = draw(st.sampled_from(["none", "none", "sonar-issues", "sarif", "hotspots-only", "defectdojo-only"]))
    if mode == "include":
        # restrict patterns so that only detector-less find-and-fix codemods or SAST codemods
        # (no semgrep subprocess) can be selected: patterns are derived from cheap ids and
        # the case is re-checked by the reference; rule-detected selections are allowed but rare
        items = draw(st.lists(pattern_from(ids), min_size=1, max_size=5))
        sel = ref_select(R["reg"], items, None, False, R["dex"])
        det = {c.id for c in R["r"].codemods if type(c.detector).__name__ == "SemgrepRuleDetector"}
        # keep runs cheap: drop items selecting more than 12 codemods or any semgrep-rule codemod
        items = [i for i in items if len(ref_select(R["reg"], [i], None, False, R["dex"])) <= 12 and not (set(ref_select(R["reg"], [i], None, False, R["dex"])) & det)]
        if not items:
            items = [draw(st.sampled_from(ids))]
        return {"level": "e2e", "include": items, "exclude": None, "elig": elig}
    if mode == "exclude":
        # exclude nearly everything so the run stays cheap: a broad pattern plus specifics
        if elig in ("sonar-issues", "sarif"):
            items = draw(st.lists(pattern_from([i for i in all_ids if not i.startswith("pixee")]), min_size=1, max_size=4))
        else:
            keep = draw(st.lists(st.sampled_from(ids), min_size=1, max_size=3, unique=True))
            items = [i for i in all_ids if i.startswith("pixee") and i not in keep]
            extra = draw(st.lists(pattern_from(keep), max_size=2))
            items = items + extra
        return {"level": "e2e", "include": None, "exclude": items, "elig": elig}
    # default selection in find-and-fix mode runs all 61 pixee codemods (semgrep included, ~20 s):
    # those runs are dedicated "default" shards, not Hypothesis draws
    return {"level": "e2e", "include": None, "exclude": None, "elig": draw(st.sampled_from(["sonar-issues", "sarif"]))}


def eval_e2e(case, stats: core.Stats | None = None):
    R = real_registry()
    vs = []
    with runner.scratch("c17") as sd:
        proj = sd / "proj"
        runner.write_tree(proj, {"a.py": "x = set([1, 2])\n"})
        argv = [str(proj), "--output", str(sd / "out.codetf")]
        if case["include"]:
            argv += ["--codemod-include", ",".join(case["include"])]
        if case["exclude"]:
            argv += ["--codemod-exclude", ",".join(case["exclude"])]
        elig = case["elig"]
        sast = False
        if elig == "sonar-issues":
            (sd / "sonar.json").write_text(SONAR_DOC)
            argv += ["--sonar-issues-json", str(sd / "sonar.json")]
            sast = True
        elif elig == "sarif":
            (sd / "r.sarif").write_text(SARIF_DOC)
            argv += ["--sarif", str(sd / "r.sarif")]
            sast = True
        elif elig == "hotspots-only":
            (sd / "hot.json").write_text(SONAR_DOC)
            argv += ["--sonar-hotspots-json", str(sd / "hot.json")]
        elif elig == "defectdojo-only":
            (sd / "dd.json").write_text(DD_DOC)
            argv += ["--defectdojo-findings-json", str(sd / "dd.json")]
        # the CLI splits on ',' and de-duplicates literal repeats before selection
        inc = list(dict.fromkeys(case["include"])) if case["include"] else None
        exc = list(dict.fromkeys(case["exclude"])) if case["exclude"] else None
        expected = ref_select(R["reg"], inc, exc, sast, R["dex"])
        res = runner.run_cli(argv, cwd=str(sd), output=sd / "out.codetf", timeout=900)
        if res.exit != 0 or res.report is None:
            raise core.HarnessError(f"C17 e2e run failed: exit={res.exit} argv={argv} stderr={res.stderr[-800:]}")
        ran = runner.executed_codemods(res.stdout)
        reported = [r["codemod"] for r in res.report["results"]]
        unknown = [i for i in (inc or []) if "*" not in i and i not in [x for x, _ in R["reg"]]]
        if ran != expected:
            vs.append(dict(component="cli", kind="executed-differs", features=features_of(case, expected, ran), case=case,
                           detail=json.dumps({"expected": expected, "ran": ran})[:3000]))
        if reported != expected:
            vs.append(dict(component="cli", kind="reported-differs", features=features_of(case, expected, reported), case=case,
                           detail=json.dumps({"expected": expected, "reported": reported})[:3000]))
        for u in unknown:
            if u not in res.log or not re.search(r"does not exist|does not match", res.log):
                vs.append(dict(component="cli", kind="unknown-id-no-warning", features=[], case=case, detail=f"{u!r} not warned about"))
    if stats is not None:
        labels = ["e2e", "elig:" + elig, "mode:" + ("include" if case["include"] else "exclude" if case["exclude"] else "default")]
        if unknown:
            labels.append("unknown-id")
        items = case["include"] or case["exclude"] or []
        if any("*" in i for i in items):
            labels.append("has-pattern")
        stats.case(case, len(expected) > 0, labels, sample={"case": {k: (v if k != "exclude" or not v or len(v) < 8 else v[:3] + ["...%d more" % (len(v) - 3)]) for k, v in case.items()}, "expected": expected[:8]})
        for v in vs:
            stats.violation(**v)
    return vs


# ------------------------------------------------------------------ campaign interface

BUDGET = {
    "quick": {"direct": 16 * 500, "e2e": 16 * 5, "default_runs": ["hotspots-only"]},
    "thorough": {"direct": 16 * 40000, "e2e": 16 * 60, "default_runs": ["hotspots-only", "defectdojo-only", "none"]},
}


def _fuzz_direct_strategy():
    import logging

    logging.getLogger("codemodder").setLevel(logging.CRITICAL)
    return direct_case([i for i, _ in real_registry()["reg"]])


# coverage-guided stage: same strategy, same oracle, bytes chosen by libFuzzer (cmv/fuzz.py)
FUZZ_TARGETS = {"direct": (_fuzz_direct_strategy, lambda c, stats: eval_direct(c, stats))}
FUZZ_BUDGET = {"quick": (1, 2000), "thorough": (8, 100000)}


def shards(tier, seed):
    b = BUDGET[tier]
    out = [{"kind": "fuzz", "runs": FUZZ_BUDGET[tier][1], "seed": seed * 1000 + 900 + i} for i in range(FUZZ_BUDGET[tier][0])]
    for i in range(16):
        out.append({"kind": "direct", "n": b["direct"] // 16, "seed": seed * 1000 + i})
    for i in range(16):
        out.append({"kind": "e2e", "n": b["e2e"] // 16, "seed": seed * 1000 + 100 + i})
    # longest first
    out = [{"kind": "default", "elig": e} for e in b["default_runs"]] + out
    return out


def run_shard(spec):
    stats = core.Stats()
    if spec["kind"] == "fuzz":
        from .. import fuzz

        return fuzz.fuzz_shard(__name__, "direct", spec["runs"], spec["seed"])
    if spec["kind"] == "direct":
        import logging

        lg = logging.getLogger("codemodder")
        old = lg.level
        lg.setLevel(logging.CRITICAL)  # the "does not exist" warnings of 8000 direct cases are noise here
        try:
            real_ids = [i for i, _ in real_registry()["reg"]]
            core.drive(direct_case(real_ids), lambda c: eval_direct(c, stats), spec["n"], spec["seed"])
        finally:
            lg.setLevel(old)
    elif spec["kind"] == "e2e":
        core.drive(e2e_case(), lambda c: eval_e2e(c, stats), spec["n"], spec["seed"])
    else:
        eval_e2e({"level": "e2e", "include": None, "exclude": None, "elig": spec["elig"]}, stats)
    return stats


def replay(case):
    if case.get("level") == "e2e":
        return eval_e2e(case)
    return eval_direct(case)
