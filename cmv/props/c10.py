"""C10 -- an unprocessable file is left intact, reported, and does not stop the run (fault enumeration)."""
from __future__ import annotations

import copy
import json
import os
from pathlib import Path

from hypothesis import strategies as st

from .. import core, engine, harvest, progspace, runner
from .c15 import SCHEMA

ID = "C10"
LEVEL = "fault_enumeration"
TECHNIQUE = "fault injection over generated projects (bad bytes, vanishing file, exceptions raised at libcst/stdlib seams at the i-th file / j-th visited node) with a differential oracle against the fault-free run"
RULE = (
    "projects of 3-6 trigger files x fault kind (invalid UTF-8, NUL byte, syntax error, empty file, file vanishing between listing and reading, parser raising for the "
    "victim, transformer raising at the j-th visited node of the victim) x victim position x pipeline kind (detector-less, semgrep-rule-detected through real semgrep, "
    "SAST-driven with findings on the victim) x 1-3 codemods.  Run F (fault) and run 0 (same project without the fault; content faults: victim replaced by a valid "
    "non-triggering file) on copies: every other file must end with the same bytes and the same changesets as in run 0; the victim's bytes are unchanged (or the file is "
    "absent for 'vanish'), it has no changeset, it is listed in failedFiles by every codemod that had selected it (detector-less: all; SAST: those with findings on it, "
    "whose findings must then appear in unfixedFindings); exit status 0; the report passes C15's schema.  Non-trivial = the victim was selected by >=1 codemod and >=1 "
    "other file was changed.  The thorough tier enumerates every node index j for the victim."
)
ASSUMPTIONS = [
    "faults are exceptions and bad inputs; process kills and partial writes are outside this property",
    "an empty file and a file with a NUL byte need not be failures (libcst may accept them): for these only isolation of the other files and 'no changeset for an unchanged victim' are checked",
    "for semgrep-detected codemods the victim counts as selected only when it ends up in failedFiles or is changed (what semgrep reports for a broken file is the detector's business)",
    "behavioural faults are injected in the forked child at third-party/stdlib seams: libcst.parse_module, libcst.matchers.MatcherDecoratableTransformer.on_visit, pathlib.Path.read_bytes",
]

MARK = "# __VICTIM__"
CONTENT_FAULTS = ["bad-utf8", "nul", "syntax-error", "empty"]
BEHAVIOUR_FAULTS = ["vanish", "parse-raises", "visit-raises"]


# ---------------------------------------------------------------- seams (run in the forked child)


def seam_vanish(victim_name):
    def seam():
        import pathlib

        orig = pathlib.Path.read_bytes

        def read_bytes(self):
            if self.name == victim_name and self.exists():
                os.unlink(self)
            return orig(self)

        pathlib.Path.read_bytes = read_bytes

    return seam


def seam_parse_raises():
    def seam():
        import libcst

        orig = libcst.parse_module

        def parse_module(source, *a, **k):
            if isinstance(source, str) and MARK in source:
                raise RuntimeError("injected parser fault")
            return orig(source, *a, **k)

        libcst.parse_module = parse_module
        # modules that did `import libcst as cst` resolve cst.parse_module at call time: covered

    return seam


def seam_visit_raises(j, counter_file=None):
    def seam():
        import threading

        import libcst
        from libcst.matchers import MatcherDecoratableTransformer

        tl = threading.local()
        orig = MatcherDecoratableTransformer.on_visit

        def on_visit(self, node):
            if isinstance(node, libcst.Module):
                try:
                    tl.victim = MARK in node.code
                except Exception:
                    tl.victim = False
                tl.n = 0
            if getattr(tl, "victim", False):
                tl.n += 1
                if counter_file:
                    with open(counter_file, "w") as f:
                        f.write(str(tl.n))
                if j is not None and tl.n == j:
                    raise RuntimeError(f"injected transformer fault at visited node {j}")
            return orig(self, node)

        MatcherDecoratableTransformer.on_visit = on_visit

    return seam


# ---------------------------------------------------------------- case generation

PLAIN = ["pixee:python/use-set-literal", "pixee:python/fix-mutable-params", "pixee:python/remove-unnecessary-f-str", "pixee:python/use-generator", "pixee:python/harden-pickle-load",
         "pixee:python/literal-or-new-object-identity", "pixee:python/combine-startswith-endswith", "pixee:python/fix-assert-tuple"]
RULE_DET = ["pixee:python/secure-random", "pixee:python/requests-verify", "pixee:python/harden-pyyaml", "pixee:python/limit-readline"]


def sast_ids():
    return [cid for cid, k in engine.all_codemods() if k == "sast" and harvest.harvest().get(cid, {}).get("sast")]


@st.composite
def fault_plan(draw, force=None):
    """force = (pipeline, fault, inline): the deterministic grid of the sweep; None = all drawn."""
    pipeline = force[0] if force else draw(st.sampled_from(["plain", "plain", "plain", "sast", "sast", "rule"]))
    if pipeline == "plain":
        cms = draw(st.lists(st.sampled_from(PLAIN), min_size=1, max_size=3, unique=True))
    elif pipeline == "rule":
        # (grid cells keep to the rule-detected codemod alone, so that the victim is one of its files)
        cms = [draw(st.sampled_from(RULE_DET))] + (draw(st.lists(st.sampled_from(PLAIN), max_size=1)) if not force else [])
    else:
        tool = draw(st.sampled_from(["sonar", "semgrep", "defectdojo"]))
        cms = draw(st.lists(st.sampled_from([c for c in sast_ids() if c.startswith(tool)]), min_size=1, max_size=2, unique=True))
    n = draw(st.integers(3, 6))
    files = []
    for k in range(n):
        cid = cms[k % len(cms)] if k < len(cms) else draw(st.sampled_from(cms))
        seeds, sast = engine.seeds_for(cid)
        if sast:
            # one or two reported sites per file: a failed file then carries several findings of one rule
            ss = draw(st.lists(st.sampled_from(sast), min_size=1, max_size=2))
            files.append({"codemod": cid, "parts": [{"code": s["code"], "results": s["results"], "ops": [["wrap", "def"]] if len(ss) > 1 else []} for s in ss], "file_ops": []})
        else:
            files.append({"codemod": cid, "parts": [{"code": draw(st.sampled_from(seeds)), "results": None, "ops": draw(st.sampled_from([[], [["wrap", "def"]]]))}], "file_ops": []})
    fault = force[1] if force else draw(st.sampled_from(CONTENT_FAULTS + BEHAVIOUR_FAULTS + ["visit-raises"]))
    return {"pipeline": pipeline, "codemods": cms, "files": files, "victim": draw(st.integers(0, n - 1)), "fault": fault, "j": draw(st.integers(1, 60)), "workers": draw(st.sampled_from([1, 1, 3])),
            # bad-utf8 only: the invalid bytes go into a string literal on the same line as each statement instead of a trailing comment
            "inline": force[2] if force else draw(st.booleans())}


def inline_bad_bytes(data: bytes) -> bytes:
    """Invalid UTF-8 inside a string literal at the start of every simple statement: the bad bytes sit on the same
    line as, and to the left of, whatever a detector matches there."""
    import ast

    try:
        tree = ast.parse(data)
    except (SyntaxError, ValueError):
        return data + b"\n# \xff\xfe\x80 not utf-8\n"
    starts = set()
    for n in ast.walk(tree):
        if isinstance(n, ast.stmt) and not isinstance(n, (ast.FunctionDef, ast.AsyncFunctionDef, ast.ClassDef, ast.If, ast.For, ast.AsyncFor, ast.While, ast.With, ast.AsyncWith, ast.Try, ast.Match)):
            starts.add(n.lineno)
    # a statement that is not the first thing on its line (`a = 1; b = 2`, `if x: y`) is left alone
    lines = data.split(b"\n")
    for ln in sorted(starts):
        raw = lines[ln - 1]
        body = raw.lstrip(b" \t")
        indent = raw[: len(raw) - len(body)]
        first = min((n.col_offset for n in ast.walk(tree) if isinstance(n, ast.stmt) and n.lineno == ln), default=0)
        if first == len(indent) and not body.startswith((b"from __future__", b"@")):
            lines[ln - 1] = indent + b"_b = '\xff\xfe'; " + body
    return b"\n".join(lines)


def corrupt(data: bytes, fault: str, inline: bool = False) -> bytes:
    if fault == "bad-utf8":
        if inline:
            return inline_bad_bytes(data)
        return data + b"\n# \xff\xfe\x80 not utf-8\n"
    if fault == "nul":
        return data + b"\nz = 1\x00\n"
    if fault == "syntax-error":
        return b"def broken(:\n    pass\n" + data
    if fault == "empty":
        return b""
    return data


def render_all(case):
    rendered = []
    for fc in case["files"]:
        rd = progspace.render(fc, "code.py")
        rendered.append((fc, dict(rd)))
    # DefectDojo findings are identified by id: copies of a fixture get ids of their own
    nid = 7000
    for _, rd in rendered:
        doc = rd.get("results")
        if doc and progspace.doc_format(doc) == "defectdojo":
            for r in doc["results"]:
                nid += 1
                r["id"] = nid
    return rendered


def victim_finding_ids(case):
    """ids of the DefectDojo findings reported on the victim (None for the other tools, whose ids are rule ids)."""
    doc = render_all(case)[case["victim"]][1].get("results")
    if doc and progspace.doc_format(doc) == "defectdojo":
        return sorted(str(r["id"]) for r in doc["results"])
    return None


def victim_finding_count(case):
    doc = render_all(case)[case["victim"]][1].get("results")
    if not doc:
        return 0
    fmt = progspace.doc_format(doc)
    if fmt == "defectdojo":
        return len(doc["results"])
    if fmt == "sonar":
        return len(doc.get("issues") or []) + len(doc.get("hotspots") or [])
    return sum(len(r.get("results") or []) for r in doc["runs"])


def build(case, root: Path, with_fault: bool):
    rendered = render_all(case)
    v = case["victim"]
    fault = case["fault"]
    vic_case, vic_rd = rendered[v]
    if fault in CONTENT_FAULTS:
        if with_fault:
            vic_rd["data"] = corrupt(vic_rd["data"], fault, case.get("inline", False))
        else:
            vic_rd["data"] = b"ok = 1\n"  # valid, non-triggering stand-in
    else:
        vic_rd["data"] = vic_rd["data"] + (MARK + "\n").encode()
    proj, rels, res_argv = engine.build_project(root, case["codemods"], rendered)
    return proj, rels, res_argv, rendered


def run_one(case, root: Path, with_fault: bool, j_override=None, counter_file=None):
    proj, rels, res_argv, rendered = build(case, root, with_fault)
    out = root / "out.codetf"
    argv = [str(proj), "--output", str(out), "--codemod-include", ",".join(case["codemods"]), "--max-workers", str(case["workers"])] + res_argv
    seams = []
    fault = case["fault"]
    vrel = rels[case["victim"]]
    if with_fault:
        if fault == "vanish":
            seams.append(seam_vanish(Path(vrel).name))
        elif fault == "parse-raises":
            seams.append(seam_parse_raises())
        elif fault == "visit-raises":
            seams.append(seam_visit_raises(case["j"] if j_override is None else j_override, counter_file))
    elif counter_file:
        seams.append(seam_visit_raises(None, counter_file))
    before = runner.snapshot(proj)
    res = runner.run_cli(argv, cwd=str(root), output=out, seams=seams, timeout=900)
    after = runner.snapshot(proj)
    return res, before, after, rels, argv


def by_path(report):
    """(codemod, path) -> changeset ; codemod -> failed relpaths ; codemod -> unfixed"""
    cs = {}
    for r in report["results"]:
        for c in r.get("changeset", []):
            cs[(r["codemod"], c["path"])] = c
    return cs


def eval_plan(case, stats=None, j_override=None):
    st_ = stats or core.Stats()
    v0 = len(st_.violations)
    fault = case["fault"]
    with runner.scratch("c10f") as rf, runner.scratch("c10z") as rz:
        resF, bF, aF, rels, argvF = run_one(case, Path(rf), True, j_override)
        res0, b0, a0, _, _ = run_one(case, Path(rz), False)
        rootF = Path(rf)
    vrel = rels[case["victim"]]
    feats = ["fault:" + fault + ("-inline" if fault == "bad-utf8" and case.get("inline") else ""), "pipeline:" + case["pipeline"]]
    labels = feats + [f"nfiles={len(rels)}", f"victim-index={case['victim']}", f"workers={case['workers']}"]
    comp = "run"

    def viol(kind, detail):
        st_.violation(comp, kind, {"plan": case, "j": j_override}, json.dumps(detail, default=str)[:5000], features=feats)

    if res0.exit != 0 or res0.report is None:
        st_.discard(f"fault-free-run-exit-{res0.exit}")
        st_.case(case, False, labels + ["fault-free-run-failed"])
        return st_.violations[v0:]
    if resF.exit != 0:
        viol("run-with-fault-exits-nonzero", {"exit": resF.exit, "stderr": resF.stderr[-1500:], "argv": argvF[3:]})
        st_.case(case, False, labels)
        return st_.violations[v0:]
    if resF.report is None:
        viol("no-report-after-fault", {"stderr": resF.stderr[-800:]})
        st_.case(case, False, labels)
        return st_.violations[v0:]
    import jsonschema

    errs = list(jsonschema.Draft202012Validator(SCHEMA).iter_errors(resF.report))
    if errs:
        viol("report-invalid-after-fault", {"at": "/".join(map(str, errs[0].absolute_path)), "message": errs[0].message[:300]})
    csF, cs0 = by_path(resF.report), by_path(res0.report)
    others_changed = 0
    for rel in rels:
        if rel == vrel:
            continue
        if a0.get(rel) != b0.get(rel):
            others_changed += 1
        if aF.get(rel) != a0.get(rel):
            viol("other-file-outcome-differs", {"file": rel, "with_fault": (aF.get(rel) or ("", b""))[1][:600], "fault_free": (a0.get(rel) or ("", b""))[1][:600]})
            break
    for key in set(csF) | set(cs0):
        if key[1] == vrel:
            continue
        if csF.get(key) != cs0.get(key):
            viol("other-file-changeset-differs", {"codemod": key[0], "file": key[1], "with_fault": csF.get(key), "fault_free": cs0.get(key)})
            break
    # the victim
    vb, va = bF.get(vrel), aF.get(vrel)
    fired = "injected transformer fault" in resF.log or "injected parser fault" in resF.log
    if fault == "visit-raises" and not fired:
        # j lies beyond the nodes visited for this file: nothing was injected, the victim is an ordinary file
        if aF.get(vrel) != a0.get(vrel):
            viol("other-file-outcome-differs", {"file": vrel, "note": "fault did not fire"})
        st_.case([case, j_override], False, labels + ["fault-not-fired"])
        return st_.violations[v0:]
    vic_cs = [k for k in csF if k[1] == vrel]
    failed_by = []
    unfixed_by = {}
    for r in resF.report["results"]:
        ff = []
        for f in r.get("failedFiles") or []:
            p = Path(f) if os.path.isabs(f) else rootF / f
            ff.append(os.path.relpath(p, rootF / "proj"))
        if vrel in ff:
            failed_by.append(r["codemod"])
        unfixed_by[r["codemod"]] = [u for u in (r.get("unfixedFindings") or []) if u.get("path") == vrel]
    must_fail = fault in ("bad-utf8", "syntax-error", "vanish", "parse-raises")
    if fault == "visit-raises":
        must_fail = None  # only if the injected fault actually fired (j within the number of visited nodes) -> decided below
    # A transformer fault is per codemod: another codemod of the run whose transformer did not hit the injected
    # fault may legitimately process the victim.  Content faults and a vanished file hit every codemod.
    per_codemod = fault == "visit-raises"
    if per_codemod:
        bad = [k[0] for k in vic_cs if k[0] in failed_by]
        if bad:
            viol("changeset-by-codemod-that-failed-on-victim", {"file": vrel, "codemods": bad})
        if not [k for k in vic_cs if k[0] not in failed_by] and va != vb:
            viol("victim-modified", {"file": vrel, "before": (vb or ("", b""))[1][:400], "after": (va or ("", b""))[1][:400]})
    else:
        if fault == "vanish":
            if va is not None and va != vb:
                viol("vanished-victim-rewritten", {"file": vrel})
        elif va != vb and (failed_by or fault not in ("empty", "nul")):
            # (an empty file or one with a NUL byte that the parser accepts is an ordinary file)
            viol("victim-modified", {"file": vrel, "before": (vb or ("", b""))[1][:400], "after": (va or ("", b""))[1][:400]})
        if vic_cs and (va == vb or fault == "vanish") and fault not in ("empty", "nul"):
            viol("changeset-for-unprocessable-victim", {"file": vrel, "codemods": [k[0] for k in vic_cs]})
    selected_by = []
    if case["pipeline"] == "plain":
        selected_by = list(case["codemods"])
    elif case["pipeline"] == "sast":
        vic_codemod = case["files"][case["victim"]]["codemod"]
        selected_by = [vic_codemod]
    else:
        selected_by = [c for c in case["codemods"] if c in PLAIN]
    if must_fail is None:
        must_fail = fired
    if must_fail:
        missing = [c for c in selected_by if c not in failed_by]
        # a codemod whose transformer never reaches node j (visit-raises) did not hit the fault
        if fault == "visit-raises":
            # only the codemod(s) whose transformer reached visited node j hit the fault: at least one must list it
            if not failed_by:
                viol("victim-not-listed-as-failed", {"file": vrel, "selected_by": selected_by, "failed_by": failed_by})
        elif missing:
            viol("victim-not-listed-as-failed", {"file": vrel, "selected_by": selected_by, "failed_by": failed_by, "missing": missing})
        if case["pipeline"] == "sast" and failed_by:
            for c in failed_by:
                if c in selected_by and not unfixed_by.get(c):
                    viol("failed-victim-findings-not-reported-unfixed", {"file": vrel, "codemod": c})
                    break
                # every finding of the failed file is accounted for, not one per rule
                ids = victim_finding_ids(case)
                if c in selected_by and ids is not None:
                    got = sorted(str(u.get("id")) for u in unfixed_by.get(c, []))
                    if [i for i in ids if i not in got]:
                        viol("failed-victim-finding-missing-from-unfixed", {"file": vrel, "codemod": c, "reported": ids, "unfixed": got})
                        break
    nontriv = bool(selected_by) and others_changed >= 1 and (fault not in ("visit-raises",) or fired)
    st_.case([case, j_override], nontriv, labels + (["fault-fired"] if fired else []) + (["victim-failed"] if failed_by else []),
             sample={"fault": fault, "pipeline": case["pipeline"], "codemods": case["codemods"], "files": rels, "victim": vrel, "failed_by": failed_by, "others_changed": others_changed})
    return st_.violations[v0:]


def count_nodes(case):
    """Number of on_visit calls for the victim in a fault-free instrumented run (for exhaustive j enumeration)."""
    with runner.scratch("c10c") as rc:
        cf = Path(rc) / "count"
        c2 = copy.deepcopy(case)
        c2["fault"] = "visit-raises"
        res, *_ = run_one(c2, Path(rc), False, counter_file=str(cf))
        try:
            return int(cf.read_text())
        except Exception:
            return 0


BUDGET = {"quick": {"n": 10, "enumerate": 0, "grid_reps": 1}, "thorough": {"n": 120, "enumerate": 2, "grid_reps": 6}}

# deterministic grid: every pipeline kind x every fault kind (bad-utf8 in both placements) is reached in every run,
# whatever the random plans draw
GRID = [(p, f, inl) for p in ("plain", "sast", "rule") for f, inl in
        [("bad-utf8", False), ("bad-utf8", True), ("nul", False), ("syntax-error", False), ("empty", False), ("vanish", False), ("parse-raises", False), ("visit-raises", False)]]


def shards(tier, seed):
    b = BUDGET[tier]
    # quick: four shards each enumerate every visited-node index for one SAST plan (the fault position matters
    # relative to the point where the transformer records its change); thorough: every shard, any pipeline
    out = [{"n": b["n"], "enumerate": b["enumerate"] if tier == "thorough" else (1 if i < 4 else 0), "enum_pipelines": ["plain", "sast"] if tier == "thorough" else ["sast"], "seed": seed * 1000 + i, "grid": [], "enum_cap": 80 if tier == "thorough" else 30} for i in range(16)]
    # the rule pipeline (real semgrep) is the slow one: spread its combinations first
    cells = (sorted(GRID, key=lambda c: c[0] != "rule") + [("rule", "bad-utf8", True), ("rule", "bad-utf8", True)]) * b["grid_reps"]
    for k, cell in enumerate(cells):
        out[(k + seed) % 16]["grid"].append(list(cell) + [k])
    return [{"kind": "two-transformers", "points": 24 if tier == "quick" else 400}] + out


DD_TWO = "defectdojo:python/avoid-insecure-deserialization"


def two_transformer_plan():
    """The one shipped pipeline with two transformers (yaml, then pickle): the victim holds a site of each, so a fault
    in the second transformer comes after the first one has already changed the tree."""
    _, sast = engine.seeds_for(DD_TWO)
    yaml_fx = [x for x in sast if "yaml" in x["code"] and "pickle" not in x["code"]]
    pickle_fx = [x for x in sast if "pickle" in x["code"] and "yaml" not in x["code"]]
    if not yaml_fx or not pickle_fx:
        return None
    both = [{"code": yaml_fx[0]["code"], "results": yaml_fx[0]["results"], "ops": [["wrap", "def"]]},
            {"code": pickle_fx[0]["code"], "results": pickle_fx[0]["results"], "ops": [["wrap", "def"]]}]
    other = {"codemod": DD_TWO, "parts": [{"code": yaml_fx[0]["code"], "results": yaml_fx[0]["results"], "ops": []}], "file_ops": []}
    return {"pipeline": "sast", "codemods": [DD_TWO], "files": [other, {"codemod": DD_TWO, "parts": both, "file_ops": []}, copy.deepcopy(other)],
            "victim": 1, "fault": "visit-raises", "j": 1, "workers": 1, "inline": False}


def run_shard(spec):
    stats = core.Stats()
    if spec.get("kind") == "two-transformers":
        plan = two_transformer_plan()
        if plan is None:
            stats.discard("no-two-transformer-fixtures")
            return stats
        n = count_nodes(plan)
        stats.labels["two-transformer-enumerations"] += 1
        # every `step`-th visited node up to the last one: both transformers' visits are covered
        step = max(1, n // spec["points"])
        for j in range(1, n + 1, step):
            eval_plan(plan, stats, j_override=j)
        return stats
    enum_left = [spec["enumerate"]]

    def fn(c):
        eval_plan(c, stats)
        if c["pipeline"] in spec["enum_pipelines"] and c["pipeline"] != "rule" and enum_left[0] > 0 and c["fault"] in ("visit-raises", "parse-raises", "bad-utf8"):
            c = dict(c, fault="visit-raises")
            enum_left[0] -= 1
            n = min(count_nodes(c), spec.get("enum_cap", 80))
            stats.labels["visit-index-enumerations"] += 1
            for j in range(1, n + 1):
                eval_plan(c, stats, j_override=j)

    for pipeline, fault, inline, rep in spec.get("grid", []):
        core.drive(fault_plan(force=(pipeline, fault, inline)), lambda c: eval_plan(c, stats), 1, spec["seed"] * 31 + rep * 7 + engine.hash_str(pipeline + fault + str(inline)) % 1000)
    core.drive(fault_plan(), fn, spec["n"], spec["seed"])
    return stats


def replay(case):
    return eval_plan(case["plan"], None, case.get("j"))
