"""Shared scaffold for the program-space properties with an intrinsic per-file oracle (C01, C02)."""
from __future__ import annotations

import json

from .. import core, engine, progspace


def sample_of(f):
    return {"codemod": f.case["codemod"], "labels": f.labels, "before": f.before.decode("utf-8", "replace")[:700], "after": (f.after or b"").decode("utf-8", "replace")[:700]}


def single_case(f):
    """The stored replay case: one program, rendered again on replay."""
    return {"program": f.case}


def run_programs(spec, judge, stats, max_parts=3, extra_argv=()):
    def handle(cid, kind, rendered):
        obs = engine.run_batch([cid], rendered, extra_argv=extra_argv)
        if obs.res.exit != 0 or obs.res.report is None:
            stats.discard(f"run-exit-{obs.res.exit}")
            stats.labels["run-failed:" + cid] += 1
            return
        failed = set()
        for r in obs.res.report["results"]:
            failed |= set(r.get("failedFiles") or [])
        for f in obs.files:
            labels = ["kind:" + kind, "codemod:" + cid] + f.labels
            judge(f, cid, kind, labels, stats, obs)

    engine.drive_programs(spec, handle, stats, max_parts=max_parts)


def replay_program(case, judge, extra_argv=()):
    prog = case["program"]
    rd = progspace.render(prog, "code.py")
    cid = prog["codemod"]
    kind = engine.kind_of(engine.codemod_by_id(cid))
    obs = engine.run_batch([cid], [(prog, rd)], extra_argv=extra_argv)
    st = core.Stats()
    if obs.res.exit != 0 or obs.res.report is None:
        raise core.HarnessError(f"replay run failed: exit={obs.res.exit} {obs.res.stderr[-500:]}")
    for f in obs.files:
        judge(f, cid, kind, f.labels, st, obs)
    return st.violations


def minimise_program(case, judge, kind=None, extra_argv=()):
    """Greedy delta debugging over the JSON program case: drop parts, part ops, file ops, then shorten
    the seed code line-wise; keep a candidate only if the same violation kind still reproduces."""
    import copy

    def fails(c):
        try:
            vs = replay_program(c, judge, extra_argv)
        except core.HarnessError:
            return False
        return any(kind is None or v["kind"] == kind for v in vs)

    cur = copy.deepcopy(case)
    if not fails(cur):
        return cur, False
    changed = True
    evals = 0
    while changed and evals < 80:
        changed = False
        prog = cur["program"]
        cands = []
        for i in range(len(prog["parts"])):
            if len(prog["parts"]) > 1:
                c = copy.deepcopy(cur)
                del c["program"]["parts"][i]
                cands.append(c)
        for j in range(len(prog.get("file_ops", []))):
            c = copy.deepcopy(cur)
            del c["program"]["file_ops"][j]
            cands.append(c)
        for i, part in enumerate(prog["parts"]):
            for j in range(len(part["ops"])):
                c = copy.deepcopy(cur)
                del c["program"]["parts"][i]["ops"][j]
                cands.append(c)
        for i, part in enumerate(prog["parts"]):
            if part.get("results") is None:
                lines = part["code"].splitlines(keepends=True)
                for j in range(len(lines)):
                    c = copy.deepcopy(cur)
                    c["program"]["parts"][i]["code"] = "".join(lines[:j] + lines[j + 1:])
                    if c["program"]["parts"][i]["code"].strip():
                        cands.append(c)
        for c in cands:
            evals += 1
            if evals > 80:
                break
            if fails(c):
                cur = c
                changed = True
                break
    return cur, True
