"""C12 -- no finding is lost or altered between the tool result files and the codemods.

(i)   algebra: a Hypothesis RuleBasedStateMachine over ResultSets (add_result, a|b, a|=b) with a
      Counter-per-set reference model, invariant after every step;
(ii)  documents: generated Sonar / SARIF (semgrep, CodeQL, foreign) / DefectDojo documents through
      the loader functions the detectors use, vs. an independent reference extraction;
(iii) end-to-end: the CLI with result files in any order; the ResultSet handed to each SAST codemod
      (captured at BaseCodemod.get_files_to_analyze in the forked child) vs. the reference.
"""
from __future__ import annotations

import collections
import json
from pathlib import Path

from hypothesis import strategies as st

from .. import core, runner

ID = "C12"
LEVEL = "exploration"
TECHNIQUE = "Hypothesis stateful (model-based) testing of the ResultSet algebra + generated tool documents vs. an independent reference extractor"
RULE = (
    "(i) RuleBasedStateMachine histories over result sets (new/add_result/or/ior; small alphabets of rule ids and paths so keys "
    "overlap and are disjoint) checked after every step against one Counter per set; (ii) generated Sonar issue+hotspot JSON, SARIF "
    "with 1-3 runs (semgrep, CodeQL, foreign tool; ruleId vs rule.index; optional region parts) and DefectDojo documents, 1-3 files "
    "per tool in any order, loaded through process_sonar_findings/process_semgrep_findings/process_codeql_findings/_process_results "
    "and compared as multisets of (rule, file, start line/col, end line/col, identity) with a reference extractor; (iii) the same "
    "through the CLI.  Non-trivial = a merge with at least one overlapping and one disjoint key, or a document family with >=2 "
    "findings and >=1 decoy/foreign entry; distinct = distinct history / document family."
)
ASSUMPTIONS = [
    "open = Sonar status OPEN or TO_REVIEW (case-insensitive); RESOLVED/CLOSED/REVIEWED/FIXED are closed; ambiguous statuses (CONFIRMED, REOPENED) are not generated",
    "every generated Sonar entry carries a status; semgrep SARIF regions carry all four coordinates (as semgrep emits them); CodeQL regions may omit end/columns or the region",
    "two runs of one tool inside one SARIF file are not generated end-to-end (rejected by design, see C20); a result's locations lie in distinct files",
    "SARIF formats have no per-finding identity in this code base (Finding.id = rule id), so identity is compared for Sonar (key) and DefectDojo (id) only",
]

RULES = ["python:S1", "python:S2", "pythonsecurity:S3"]
PATHS = ["a.py", "b.py", "pkg/c.py"]

# ---------------------------------------------------------------------------- (i) algebra


def mk_result(rule, path, line, fid):
    from core_codemods.sonar.results import SonarLocation, SonarResult
    from codemodder.result import LineInfo

    loc = SonarLocation(file=Path(path), start=LineInfo(line, 1, ""), end=LineInfo(line, 5, ""))
    return SonarResult(finding_id=fid, rule_id=rule, locations=[loc], finding=None)


def flatten_algebra(rs):
    c = collections.Counter()
    for rule, by_path in rs.items():
        for path, results in by_path.items():
            for r in results:
                c[(rule, str(path), r.locations[0].start.line, r.finding_id, r.rule_id)] += 1
    return c


def apply_trace(trace):
    """Interpret a history; returns None or a violation detail string."""
    from codemodder.result import ResultSet

    sets, models = [], []
    for step_no, op in enumerate(trace):
        try:
            if op[0] == "new":
                sets.append(ResultSet())
                models.append(collections.Counter())
            elif op[0] == "add":
                _, i, rule, path, line, fid = op
                sets[i].add_result(mk_result(rule, path, line, fid))
                models[i][(rule, path, line, fid, rule)] += 1
            elif op[0] == "or":
                _, i, j = op
                sets.append(sets[i] | sets[j])
                models.append(models[i] + models[j])
            elif op[0] == "ior":
                _, i, j = op
                target = sets[i]
                target |= sets[j]
                sets[i] = target
                models[i] = models[i] + models[j]
        except Exception as e:
            return ("raises", f"step {step_no} {op}: {type(e).__name__}: {e}")
        for k, (s, m) in enumerate(zip(sets, models)):
            got = flatten_algebra(s)
            if got != +m:
                return (
                    "merge-differs",
                    f"after step {step_no} {op}: set #{k} holds {sorted(got.items())} but the multiset union is {sorted((+m).items())}",
                )
    return None


def trace_labels(trace):
    labels = set()
    sets_keys = []
    for op in trace:
        if op[0] == "new":
            sets_keys.append(set())
        elif op[0] == "add":
            sets_keys[op[1]].add((op[2], op[3]))
        elif op[0] in ("or", "ior"):
            a, b = sets_keys[op[1]], sets_keys[op[2]]
            ra, rb = {r for r, _ in a}, {r for r, _ in b}
            if a & b:
                labels.add("overlap-rule+path")
            if (ra & rb) and (a ^ b):
                labels.add("same-rule-different-path")
            if ra ^ rb:
                labels.add("disjoint-rule")
            if not a or not b:
                labels.add("empty-operand")
            if op[1] == op[2]:
                labels.add("self-merge")
            labels.add(op[0])
            if op[0] == "or":
                sets_keys.append(a | b)
            else:
                sets_keys[op[1]] = a | b
    return labels


def algebra_machine(stats: core.Stats, failures: list):
    from hypothesis.stateful import RuleBasedStateMachine, invariant, precondition, rule

    class Machine(RuleBasedStateMachine):
        def __init__(self):
            super().__init__()
            self.trace = []
            self.n = 0
            self.bad = None

        def _do(self, op):
            self.trace.append(op)
            bad = apply_trace(self.trace)  # histories are short; re-interpreting keeps one code path
            if bad:
                failures.append((list(self.trace), bad))
                raise AssertionError(bad[1])

        @rule()
        def new(self):
            self.n += 1
            self._do(["new"])

        @precondition(lambda self: self.n > 0)
        @rule(data=st.data(), r=st.sampled_from(RULES), p=st.sampled_from(PATHS), line=st.integers(1, 3), fid=st.sampled_from(["k1", "k2", "k3"]))
        def add(self, data, r, p, line, fid):
            i = data.draw(st.integers(0, self.n - 1))
            self._do(["add", i, r, p, line, fid])

        @precondition(lambda self: self.n > 0)
        @rule(data=st.data())
        def or_(self, data):
            i = data.draw(st.integers(0, self.n - 1))
            j = data.draw(st.integers(0, self.n - 1))
            self.n += 1
            self._do(["or", i, j])

        @precondition(lambda self: self.n > 0)
        @rule(data=st.data())
        def ior(self, data):
            i = data.draw(st.integers(0, self.n - 1))
            j = data.draw(st.integers(0, self.n - 1))
            self._do(["ior", i, j])

        def teardown(self):
            labs = trace_labels(self.trace)
            nontriv = ("overlap-rule+path" in labs or "same-rule-different-path" in labs) and "disjoint-rule" in labs
            stats.case(self.trace, nontriv, ["algebra"] + ["algebra:" + l for l in sorted(labs)], sample={"history": self.trace})

    return Machine


def run_algebra(stats, n, seed_value, steps):
    from hypothesis import Phase, seed
    from hypothesis.stateful import run_state_machine_as_test

    failures = []
    M = algebra_machine(stats, failures)
    try:
        run_state_machine_as_test(
            seed(seed_value)(M),
            settings=core.hyp_settings(n, stateful_step_count=steps, phases=(Phase.generate, Phase.shrink)),
        )
    except AssertionError:
        pass
    if failures:
        trace, (kind, detail) = min(failures, key=lambda f: len(json.dumps(f[0])))
        labs = trace_labels(trace)
        stats.violation("ResultSet", kind, {"level": "algebra", "trace": trace}, detail, features=sorted(l for l in labs if l in ("or", "ior")))


# ---------------------------------------------------------------------------- (ii) documents

SONAR_OPEN = ["OPEN", "TO_REVIEW", "open", "to_review"]
SONAR_CLOSED = ["RESOLVED", "CLOSED", "REVIEWED", "FIXED"]


@st.composite
def text_range(draw):
    sl = draw(st.integers(1, 40))
    el = sl + draw(st.integers(0, 2))
    so = draw(st.integers(0, 30))
    eo = draw(st.integers(0, 40))
    return {"startLine": sl, "endLine": el, "startOffset": so, "endOffset": eo}


@st.composite
def sonar_entry(draw, kind, n):
    rule = draw(st.sampled_from(RULES + ["python:S5659", "python:S2245"]))
    e = {
        "key": f"{kind}-{n}-{draw(st.integers(0, 9999))}",
        "component": draw(st.sampled_from(["proj:", "", "org_proj:sub:"])) + draw(st.sampled_from(PATHS)),
        "status": draw(st.sampled_from(SONAR_OPEN * 2 + SONAR_CLOSED)),
        "message": draw(st.sampled_from(["msg", "Use a secure thing", ""])),
    }
    e["rule" if kind == "issue" else "ruleKey"] = rule
    if draw(st.integers(0, 9)) > 0:
        e["textRange"] = draw(text_range())
    if draw(st.integers(0, 4)) == 0:
        e["flows"] = [{"locations": [{"component": e["component"], "textRange": draw(text_range())}]}]
    if draw(st.integers(0, 5)) == 0:
        del e["key"]
    return e


@st.composite
def sonar_doc(draw, idx):
    shape = draw(st.sampled_from(["issues", "hotspots", "both", "both", "empty-issues+hotspots", "none"]))
    doc = {}
    if shape in ("issues", "both"):
        doc["issues"] = [draw(sonar_entry("issue", f"{idx}i{k}")) for k in range(draw(st.integers(0, 4)))]
    if shape in ("hotspots", "both", "empty-issues+hotspots"):
        doc["hotspots"] = [draw(sonar_entry("hotspot", f"{idx}h{k}")) for k in range(draw(st.integers(0, 4)))]
    if shape == "empty-issues+hotspots":
        doc["issues"] = []
    if draw(st.booleans()):
        doc["total"] = 1
        doc["paging"] = {"pageIndex": 1}
    return doc


def ref_sonar(docs):
    c = collections.Counter()
    for doc in docs:
        entries = list(doc.get("issues") or []) + list(doc.get("hotspots") or [])
        for e in entries:
            if e["status"].lower() not in ("open", "to_review"):
                continue
            tr = e.get("textRange")
            if not tr:
                continue  # no location
            rule = e.get("rule") or e.get("ruleKey")
            path = e["component"].split(":")[-1]
            c[(rule, path, tr["startLine"], tr["startOffset"], tr["endLine"], tr["endOffset"], e.get("key", rule))] += 1
    return c


@st.composite
def sarif_region(draw, tool):
    sl = draw(st.integers(1, 40))
    sc = draw(st.integers(1, 30))
    el = sl + draw(st.integers(0, 2))
    ec = draw(st.integers(1, 40))
    region = {"startLine": sl, "startColumn": sc, "endLine": el, "endColumn": ec}
    if tool == "codeql":
        for k in ("endLine", "endColumn"):
            if draw(st.integers(0, 3)) == 0:
                del region[k]
    if tool == "semgrep" and draw(st.booleans()):
        region["snippet"] = {"text": "x = 1"}
    return region


@st.composite
def sarif_result(draw, tool, ext_rules):
    rules = {"semgrep": ["python.lang.security.rule-a", "rule-b", "python.django.rule-c"], "codeql": ["py/a", "py/b"], "foreign": ["X1", "X2"]}[tool]
    res = {"message": {"text": "m"}}
    rid = draw(st.sampled_from(rules))
    if ext_rules is not None and draw(st.integers(0, 2)) == 0:
        res["rule"] = {"toolComponent": {"index": 0}, "index": draw(st.integers(0, len(ext_rules) - 1))}
    else:
        res["ruleId"] = rid
    nloc = draw(st.sampled_from([1, 1, 1, 2]))
    paths = draw(st.lists(st.sampled_from(PATHS), min_size=nloc, max_size=nloc, unique=True))
    locs = []
    for p in paths:
        pl = {"artifactLocation": {"uri": p}}
        if tool == "codeql" and draw(st.integers(0, 5)) == 0:
            pass  # file-level result: no region
        else:
            pl["region"] = draw(sarif_region(tool))
        locs.append({"physicalLocation": pl})
    res["locations"] = locs
    return res


@st.composite
def sarif_run(draw, tool):
    name = {"semgrep": draw(st.sampled_from(["Semgrep OSS", "semgrep", "Semgrep PRO"])), "codeql": "CodeQL", "foreign": draw(st.sampled_from(["Bandit", "Snyk Code"]))}[tool]
    ext_rules = None
    run = {"tool": {"driver": {"name": name, "rules": []}}}
    if draw(st.integers(0, 2)) == 0:
        ext_rules = [{"id": f"ext/{tool}/r{k}"} for k in range(2)]
        run["tool"]["extensions"] = [{"name": "pack", "rules": ext_rules}]
    run["results"] = [draw(sarif_result(tool, ext_rules)) for _ in range(draw(st.integers(0, 3)))]
    return run


@st.composite
def sarif_doc(draw, tools):
    return {"version": "2.1.0", "$schema": "https://json.schemastore.org/sarif-2.1.0.json", "runs": [draw(sarif_run(t)) for t in tools]}


def tool_of_run(run):
    name = run["tool"]["driver"]["name"]
    if "semgrep" in name.lower():
        return "semgrep"
    if "CodeQL" in name:
        return "codeql"
    return "foreign"


def ref_sarif(docs, tool):
    c = collections.Counter()
    for doc in docs:
        for run in doc["runs"]:
            if tool_of_run(run) != tool:
                continue
            for res in run["results"]:
                rid = res.get("ruleId")
                if not rid:
                    rid = run["tool"]["extensions"][res["rule"]["toolComponent"]["index"]]["rules"][res["rule"]["index"]]["id"]
                for loc in res["locations"]:
                    pl = loc["physicalLocation"]
                    reg = pl.get("region")
                    if reg is None:
                        tup = (0, -1, 0, -1)
                    else:
                        sl, sc = reg["startLine"], reg.get("startColumn")
                        tup = (sl, sc, reg.get("endLine", sl), reg.get("endColumn", sc))
                    c[(rid, pl["artifactLocation"]["uri"]) + tup + (rid,)] += 1
    return c


@st.composite
def dd_doc(draw, idx):
    n = draw(st.integers(0, 4))
    return {
        "count": n,
        "results": [
            {"id": idx * 100 + k, "title": draw(st.sampled_from(["python.django.security.audit.secure-cookies.django-secure-set-cookie", "python.lang.security.x", "other-title"])),
             "file_path": draw(st.sampled_from(PATHS)), "line": draw(st.integers(1, 40)), "description": "d"}
            for k in range(n)
        ],
    }


def ref_dd(docs):
    c = collections.Counter()
    for doc in docs:
        for r in doc["results"]:
            c[(r["title"], r["file_path"], r["line"], -1, r["line"], -1, r["id"])] += 1
    return c


def flatten_loaded(rs):
    """Observed multiset: one element per (rule, file) entry, described by that file's location(s) in the result."""
    c = collections.Counter()
    for rule, by_path in rs.items():
        for path, results in by_path.items():
            for r in results:
                locs = [l for l in r.locations if str(l.file) == str(path)]
                l = locs[0]
                c[(rule, str(path), l.start.line, l.start.column, l.end.line, l.end.column, r.finding_id)] += 1
                if r.rule_id != rule:
                    c[("RULE-ID-ALTERED", rule, r.rule_id)] += 1
    return c


@st.composite
def doc_case(draw):
    tool = draw(st.sampled_from(["sonar", "sonar", "semgrep", "codeql", "defectdojo"]))
    nfiles = draw(st.integers(1, 3))
    if tool == "sonar":
        docs = [draw(sonar_doc(i)) for i in range(nfiles)]
    elif tool == "defectdojo":
        docs = [draw(dd_doc(i)) for i in range(nfiles)]
    else:
        docs = []
        for i in range(nfiles):
            others = draw(st.lists(st.sampled_from(["foreign", "codeql" if tool == "semgrep" else "semgrep", tool]), max_size=2))
            tools = draw(st.permutations([tool] + others))
            docs.append(draw(sarif_doc(list(tools))))
    return {"level": "docs", "tool": tool, "docs": docs}


def load_with(tool, files):
    """The loader path each detector uses, with its cache out of the way."""
    if tool == "sonar":
        from core_codemods.sonar.api import process_sonar_findings
        from core_codemods.sonar.results import SonarResultSet

        SonarResultSet.from_json.cache_clear()
        process_sonar_findings.cache_clear()
        return process_sonar_findings(tuple(files))
    if tool == "semgrep":
        from codemodder.codemods.semgrep import process_semgrep_findings

        process_semgrep_findings.cache_clear()
        return process_semgrep_findings(tuple(files))
    if tool == "codeql":
        from codemodder.codemods.codeql import process_codeql_findings

        process_codeql_findings.cache_clear()
        return process_codeql_findings(tuple(files))
    from core_codemods.defectdojo.api import _process_results
    from core_codemods.defectdojo.results import DefectDojoResultSet

    DefectDojoResultSet.from_json.cache_clear()
    _process_results.cache_clear()
    return _process_results(tuple(files))


def reference(tool, docs):
    if tool == "sonar":
        return ref_sonar(docs)
    if tool == "defectdojo":
        return ref_dd(docs)
    return ref_sarif(docs, tool)


def doc_labels(case, expected):
    tool, docs = case["tool"], case["docs"]
    labels = ["docs", "docs:" + tool, f"docs:files={len(docs)}"]
    decoy = False
    if tool == "sonar":
        for d in docs:
            ents = list(d.get("issues") or []) + list(d.get("hotspots") or [])
            if any(e["status"].lower() not in ("open", "to_review") or not e.get("textRange") for e in ents):
                decoy = True
            if d.get("issues") and d.get("hotspots"):
                labels.append("docs:issues+hotspots-in-one-file")
            if "issues" in d and not d["issues"] and d.get("hotspots"):
                labels.append("docs:empty-issues+hotspots")
    elif tool in ("semgrep", "codeql"):
        for d in docs:
            if any(tool_of_run(r) != tool for r in d["runs"]):
                decoy = True
                labels.append("docs:foreign-run")
            if sum(tool_of_run(r) == tool for r in d["runs"]) > 1:
                labels.append("docs:two-runs-same-tool")
    else:
        decoy = any(r["title"] == "other-title" for d in docs for r in d["results"])
    keys = collections.Counter((k[0], k[1]) for k in expected.elements())
    if len(docs) > 1:
        per = []
        for d in docs:
            per.append({(k[0], k[1]) for k in reference(tool, [d])})
        if any(per[i] & per[j] for i in range(len(per)) for j in range(i + 1, len(per))):
            labels.append("docs:overlapping-keys-across-files")
    nontriv = sum(expected.values()) >= 2 and decoy
    return labels, nontriv


def eval_docs(case, stats=None):
    tool, docs = case["tool"], case["docs"]
    expected = reference(tool, docs)
    vs = []
    with runner.scratch("c12") as sd:
        files = []
        for i, d in enumerate(docs):
            p = sd / f"r{i}.{'sarif' if tool in ('semgrep', 'codeql') else 'json'}"
            p.write_text(json.dumps(d))
            files.append(str(p))
        import logging

        lg = logging.getLogger("codemodder")
        old = lg.level
        lg.setLevel(logging.CRITICAL)
        try:
            rs = load_with(tool, files)
            got = flatten_loaded(rs)
        except Exception as e:
            got = None
            vs.append(dict(component=f"loader:{tool}", kind="raises", features=[type(e).__name__], case=case, detail=f"{type(e).__name__}: {e}"))
        finally:
            lg.setLevel(old)
    if got is not None and got != expected:
        missing = expected - got
        extra = got - expected
        feats = []
        if missing:
            feats.append("missing")
        if extra:
            feats.append("extra")
        vs.append(dict(component=f"loader:{tool}", kind="findings-differ", features=feats, case=case,
                       detail=json.dumps({"missing": [list(k) + [n] for k, n in sorted(missing.items(), key=repr)][:8], "extra": [list(k) + [n] for k, n in sorted(extra.items(), key=repr)][:8]}, default=str)))
    if stats is not None:
        labels, nontriv = doc_labels(case, expected)
        stats.case(case, nontriv, labels, sample={"tool": tool, "docs": docs} if len(json.dumps(docs)) < 1500 else None)
        for v in vs:
            stats.violation(**v)
    return vs


# ---------------------------------------------------------------------------- (iii) end-to-end


def _capture_seam(out_path):
    """In the child: record, for every SAST codemod, the findings it was handed (for its own rules)."""

    def seam():
        from codemodder.codemods import base_codemod

        orig = base_codemod.RemediationCodemod.get_files_to_analyze
        rec = {}

        def wrapped(self, context, results):
            if results is not None:
                mine = {r: results.get(r, {}) for r in self.requested_rules}
                rec[self.id] = sorted([list(k) + [n] for k, n in flatten_loaded(mine).items()], key=repr)
                with open(out_path, "w") as f:
                    json.dump(rec, f)
            return orig(self, context, results)

        base_codemod.RemediationCodemod.get_files_to_analyze = wrapped

    return seam


SEMGREP_RULE = "python.django.security.audit.secure-cookies.django-secure-set-cookie"  # semgrep:python/django-secure-set-cookie
SONAR_RULE = "python:S2245"  # sonar:python/secure-random  (hotspot + issue capable)
SONAR_RULE2 = "python:S5659"  # sonar:python/jwt-decode-verify


@st.composite
def e2e_case(draw):
    n_issue = draw(st.integers(0, 2))
    n_hot = draw(st.integers(0, 2))
    sonar_issue_docs = [draw(sonar_doc(i)) for i in range(n_issue)]
    sonar_hot_docs = [draw(sonar_doc(10 + i)) for i in range(n_hot)]
    # make sure rules of registered codemods occur
    for d in sonar_issue_docs + sonar_hot_docs:
        for e in list(d.get("issues") or []) + list(d.get("hotspots") or []):
            if draw(st.booleans()):
                key = "rule" if "rule" in e else "ruleKey"
                e[key] = draw(st.sampled_from([SONAR_RULE, SONAR_RULE2]))
    sarif_kind = draw(st.sampled_from(["none", "semgrep", "semgrep+foreign", "semgrep+codeql-samefile", "codeql+semgrep-samefile", "foreign+codeql+semgrep-samefile", "semgrep,codeql-files"]))
    sarifs = []
    if sarif_kind != "none":
        # runs of several tools in one file, in either order: every tool's run must reach its codemods
        tools = {"semgrep": ["semgrep"], "semgrep+foreign": ["foreign", "semgrep"], "semgrep+codeql-samefile": ["semgrep", "codeql"], "codeql+semgrep-samefile": ["codeql", "semgrep"],
                 "foreign+codeql+semgrep-samefile": ["foreign", "codeql", "semgrep"], "semgrep,codeql-files": ["semgrep"]}[sarif_kind]
        d = draw(sarif_doc(tools))
        for run in d["runs"]:
            if tool_of_run(run) == "semgrep":
                for r in run["results"]:
                    if "ruleId" in r and draw(st.booleans()):
                        r["ruleId"] = SEMGREP_RULE
        sarifs.append(d)
        if sarif_kind == "semgrep,codeql-files":
            sarifs.append(draw(sarif_doc(["codeql"])))
    dds = [draw(dd_doc(i)) for i in range(draw(st.integers(0, 2)))]
    return {"level": "e2e", "sonar_issues": sonar_issue_docs, "sonar_hotspots": sonar_hot_docs, "sarifs": sarifs, "defectdojo": dds,
            "reverse": draw(st.booleans())}


def eval_e2e(case, stats=None):
    vs = []
    with runner.scratch("c12e") as sd:
        proj = sd / "proj"
        runner.write_tree(proj, {p: "x = 1\n" for p in PATHS})
        argv = [str(proj), "--output", str(sd / "out.codetf"), "--dry-run"]

        def dump(docs, stem, ext):
            names = []
            for i, d in enumerate(docs):
                p = sd / f"{stem}{i}.{ext}"
                p.write_text(json.dumps(d))
                names.append(str(p))
            return names[::-1] if case.get("reverse") else names

        si = dump(case["sonar_issues"], "issues", "json")
        sh = dump(case["sonar_hotspots"], "hot", "json")
        sa = dump(case["sarifs"], "s", "sarif")
        dd = dump(case["defectdojo"], "dd", "json")
        if si:
            argv += ["--sonar-issues-json", ",".join(si)]
        if sh:
            argv += ["--sonar-hotspots-json", ",".join(sh)]
        if sa:
            argv += ["--sarif", ",".join(sa)]
        if dd:
            argv += ["--defectdojo-findings-json", ",".join(dd)]
        sast_mode = bool(si or sa)
        if not sast_mode:
            # SAST codemods are not eligible by default then: name them explicitly
            argv += ["--codemod-include", "sonar:*,semgrep:*,defectdojo:*"]
        cap = sd / "captured.json"
        res = runner.run_cli(argv, cwd=str(sd), output=sd / "out.codetf", seams=[_capture_seam(str(cap))], timeout=600)
        if res.exit != 0:
            vs.append(dict(component="cli", kind="run-fails", features=[f"exit={res.exit}"], case=case, detail=(res.stderr or res.stdout)[-1500:]))
            captured = None
        else:
            captured = json.loads(cap.read_text()) if cap.exists() else {}
    exp_sonar = ref_sonar(case["sonar_issues"] + case["sonar_hotspots"])
    exp_semgrep = ref_sarif(case["sarifs"], "semgrep")
    exp_dd = ref_dd(case["defectdojo"])
    if captured is not None:
        from ..props.c17 import real_registry

        R = real_registry()["r"]
        for cm in R.codemods:
            if cm.origin == "pixee":
                continue
            exp_all = {"sonar": exp_sonar, "semgrep": exp_semgrep, "defectdojo": exp_dd}[cm.origin]
            expected = collections.Counter({k: n for k, n in exp_all.items() if k[0] in cm.requested_rules})
            got = collections.Counter({tuple(x[:-1]): x[-1] for x in captured.get(cm.id, [])})
            if got != expected:
                missing, extra = expected - got, got - expected
                vs.append(dict(component=f"cli:{cm.origin}", kind="findings-differ", features=(["missing"] if missing else []) + (["extra"] if extra else []), case=case,
                               detail=json.dumps({"codemod": cm.id, "missing": [list(k) + [n] for k, n in missing.items()][:6], "extra": [list(k) + [n] for k, n in extra.items()][:6]}, default=str)))
                break
    if stats is not None:
        total = sum(1 for k in exp_sonar if k[0] in (SONAR_RULE, SONAR_RULE2)) + sum(1 for k in exp_semgrep if k[0] == SEMGREP_RULE) + sum(1 for k in exp_dd if k[0] == SEMGREP_RULE)
        labels = ["e2e", f"e2e:sonar-issue-files={len(case['sonar_issues'])}", f"e2e:hotspot-files={len(case['sonar_hotspots'])}", f"e2e:sarif-files={len(case['sarifs'])}", f"e2e:dd-files={len(case['defectdojo'])}"]
        stats.case(case, total >= 2, labels, sample=None)
        for v in vs:
            stats.violation(**v)
    return vs


# ---------------------------------------------------------------------------- campaign

BUDGET = {
    "quick": {"algebra": 400, "steps": 14, "docs": 800, "e2e": 10},
    "thorough": {"algebra": 4000, "steps": 25, "docs": 8000, "e2e": 120},
}


# coverage-guided stage: same strategy, same oracle, bytes chosen by libFuzzer (cmv/fuzz.py)
FUZZ_TARGETS = {"docs": (lambda: doc_case(), lambda c, stats: eval_docs(c, stats))}
FUZZ_BUDGET = {"quick": (1, 2000), "thorough": (8, 100000)}


def shards(tier, seed):
    b = BUDGET[tier]
    out = [{"kind": "fuzz", "runs": FUZZ_BUDGET[tier][1], "seed": seed * 1000 + 900 + i} for i in range(FUZZ_BUDGET[tier][0])]
    for i in range(16):
        out.append({"kind": "e2e", "n": b["e2e"], "seed": seed * 1000 + 200 + i})
    for i in range(8):
        out.append({"kind": "algebra", "n": b["algebra"], "steps": b["steps"], "seed": seed * 1000 + i})
    for i in range(8):
        out.append({"kind": "docs", "n": b["docs"], "seed": seed * 1000 + 100 + i})
    return out


def run_shard(spec):
    stats = core.Stats()
    if spec["kind"] == "fuzz":
        from .. import fuzz

        return fuzz.fuzz_shard(__name__, "docs", spec["runs"], spec["seed"])
    if spec["kind"] == "algebra":
        run_algebra(stats, spec["n"], spec["seed"], spec["steps"])
    elif spec["kind"] == "docs":
        core.drive(doc_case(), lambda c: eval_docs(c, stats), spec["n"], spec["seed"])
    else:
        core.drive(e2e_case(), lambda c: eval_e2e(c, stats), spec["n"], spec["seed"])
    return stats


def replay(case):
    lvl = case.get("level")
    if lvl == "algebra":
        bad = apply_trace(case["trace"])
        if bad:
            labs = trace_labels(case["trace"])
            return [dict(component="ResultSet", kind=bad[0], features=sorted(l for l in labs if l in ("or", "ior")), case=case, detail=bad[1])]
        return []
    if lvl == "docs":
        return eval_docs(case)
    return eval_e2e(case)
