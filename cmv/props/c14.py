"""C14 -- adding a dependency keeps the manifest valid, complete and duplicate-free."""
from __future__ import annotations

import ast
import configparser
import json
import re
import tomllib
from pathlib import Path

from hypothesis import strategies as st
from packaging.requirements import InvalidRequirement, Requirement
from packaging.utils import canonicalize_name

from .. import core, engine, runner

ID = "C14"
LEVEL = "exploration"
TECHNIQUE = "grammar-generated manifests in four formats x dependency-adding codemods through the real CLI; independent parsers (tomllib, ast, configparser, packaging) as judges; a stateful history machine for repeated runs and user edits"
RULE = (
    "manifest texts from per-format grammars - requirements.txt (pins, ranges, extras, markers, URLs, -r/-c/-e lines, inline comments, blank/comment lines, CRLF, no final "
    "newline, trailing blanks, BOM, empty file, package already present under another spelling/case), pyproject.toml ([project].dependencies inline/multi-line/empty/absent, "
    "poetry tables with/without dependencies, comments, other tables), setup.py (install_requires literal single/multi-line, empty, non-literal, absent) and setup.cfg "
    "(install_requires newline- or comma-separated, empty, absent, other sections) - in projects with 0-3 manifests (also nested), under the detector-less dependency adders "
    "(use-defusedxml -> defusedxml, harden-pickle-load -> fickling, flask-enable-csrf-protection -> flask-wtf; thorough adds url-sandbox -> security).  Oracles with independent "
    "parsers: (1) at most one manifest changes; (2) it still parses in its format; (3) reqs(before) subset of reqs(after) as canonical (name, specifier, extras, marker); (4) the new "
    "package occurs exactly once by PEP 503 name; (5) everything that is not a dependency is preserved; (6) a manifest that already declares the package is byte-identical; (7) a "
    "second run adds nothing; (8) with no updatable manifest the run exits 0 and the description carries the 'could not add' notice.  Histories (RuleBasedStateMachine): "
    "run_adder / user_edit / rerun with the invariants after every step.  Non-trivial = a manifest with >= 1 prior requirement and >= 1 grammar feature, and the codemod needed a dependency."
)
ASSUMPTIONS = [
    "'already declared' is judged per manifest: the manifest that would be (or is) written must be untouched if it declares the package under any version/spelling (weaker reading)",
    "requirement identity = (PEP 503 canonical name, specifier set, extras, marker); lines that are not requirements (-r, -c, -e, URLs, options) must survive verbatim",
    "TOML/cfg content is compared after parsing (comments and layout of those formats are compared as the list of non-dependency keys/values; requirements.txt and setup.py lines are compared textually modulo EOL)",
]

ADDERS = {
    "pixee:python/use-defusedxml": ("defusedxml", "from xml.etree import ElementTree\n\nt = ElementTree.parse('x.xml')\n"),
    "pixee:python/harden-pickle-load": ("fickling", "import pickle\n\nd = pickle.load(open('f', 'rb'))\n"),
    "pixee:python/flask-enable-csrf-protection": ("flask-wtf", "from flask import Flask\n\napp = Flask(__name__)\n"),
    "pixee:python/url-sandbox": ("security", "import requests\n\nurl = input()\nrequests.get(url)\n"),
}
SPELLINGS = {
    "defusedxml": ["defusedxml", "DefusedXML", "defusedxml==0.6.0", "Defusedxml>=0.5"],
    "fickling": ["fickling", "Fickling==0.0.8", "fickling>=0.1"],
    "flask-wtf": ["flask-wtf", "Flask_WTF", "Flask-WTF==1.0", "flask.wtf>=1"],
    "security": ["security", "Security==1.2.0", "security[extra]>=1"],
}
OTHER_REQS = ["requests==2.31.0", "flask>=2.0,<3", "Django~=4.2", "numpy", "PyYAML>=5.1", 'pywin32; sys_platform == "win32"', "uvicorn[standard]>=0.20", "attrs"]

# ---------------------------------------------------------------------------- grammars


@st.composite
def requirements_txt(draw, present):
    lines = []
    for _ in range(draw(st.integers(0, 6))):
        kind = draw(st.sampled_from(["req", "req", "req", "comment", "blank", "include", "option", "url", "inline-comment"]))
        if kind == "req":
            lines.append(draw(st.sampled_from(OTHER_REQS)))
        elif kind == "comment":
            lines.append("# " + draw(st.sampled_from(["pinned for prod", "dev tools", "see docs"])))
        elif kind == "blank":
            lines.append("")
        elif kind == "include":
            lines.append(draw(st.sampled_from(["-r base.txt", "-c constraints.txt", "-e ."])))
        elif kind == "option":
            lines.append("--index-url https://pypi.example.invalid/simple")
        elif kind == "url":
            lines.append("git+https://github.com/example/pkg.git#egg=pkg")
        else:
            lines.append(draw(st.sampled_from(OTHER_REQS)) + "  # keep")
    if present:
        lines.insert(draw(st.integers(0, len(lines))), present)
    eol = draw(st.sampled_from(["\n", "\n", "\r\n"]))
    text = eol.join(lines)
    if lines:
        tail = draw(st.sampled_from(["nl", "nl", "none", "blank2", "ws"]))
        text += {"nl": eol, "none": "", "blank2": eol * 3, "ws": eol + "  " + eol}[tail]
    feats = ["txt:eol=" + ("crlf" if eol == "\r\n" else "lf")] + (["txt:empty"] if not lines else []) + (["txt:tail=" + tail] if lines else [])
    if any(l and not l.startswith(("#", "-", "git+")) for l in lines):
        feats.append("updatable")  # holds at least one plain requirement line: the writer appends to it
    if draw(st.integers(0, 9)) == 0:
        text = "﻿" + text
        feats.append("txt:bom")
    return text, feats


@st.composite
def pyproject_toml(draw, present):
    shape = draw(st.sampled_from(["project-multiline", "project-multiline", "project-inline", "project-empty", "project-absent-deps", "poetry", "poetry-no-deps", "both", "tool-only"]))
    deps = draw(st.lists(st.sampled_from(OTHER_REQS), max_size=3, unique=True)) + ([present] if present else [])
    out = []
    if draw(st.booleans()):
        out.append("# project metadata")
    if shape.startswith("project") or shape == "both":
        out += ["[project]", 'name = "demo"', 'version = "0.1"']
        if shape in ("project-multiline", "both"):
            out.append("dependencies = [")
            for d in deps:
                out.append("    " + json.dumps(d) + ",  # dep" if draw(st.integers(0, 4)) == 0 else "    " + json.dumps(d) + ",")
            out.append("]")
        elif shape == "project-inline":
            out.append("dependencies = [" + ", ".join(json.dumps(d) for d in deps) + "]")
        elif shape == "project-empty":
            out.append("dependencies = []")
        out.append("")
    if shape in ("poetry", "poetry-no-deps", "both"):
        out += ["[tool.poetry]", 'name = "demo"', 'version = "0.1"', 'description = ""', ""]
        if shape != "poetry-no-deps":
            out.append("[tool.poetry.dependencies]")
            out.append('python = "^3.9"')
            for d in deps:
                try:
                    r = Requirement(d)
                except InvalidRequirement:
                    continue
                if r.marker or r.extras:
                    continue
                key = json.dumps(r.name) if "." in r.name else r.name  # a bare dotted key would be a nested table
                out.append(f'{key} = "{str(r.specifier) or "*"}"')
            out.append("")
            if draw(st.booleans()):
                out += ["[tool.poetry.group.dev.dependencies]", 'mypy = "^1.0"', ""]
    if shape == "tool-only" or draw(st.booleans()):
        out += ["[tool.black]", "line-length = 100", ""]
    text = "\n".join(out) + "\n"
    eol = draw(st.sampled_from(["lf", "lf", "crlf"]))
    if eol == "crlf":
        text = text.replace("\n", "\r\n")
    return text, ["toml:" + shape, "toml:eol=" + eol] + (["updatable"] if shape in ("project-multiline", "project-inline", "project-empty", "poetry", "both") else [])


@st.composite
def setup_py(draw, present):
    shape = draw(st.sampled_from(["multiline", "multiline", "single-line", "empty", "non-literal", "absent", "setuptools-dot"]))
    deps = draw(st.lists(st.sampled_from(OTHER_REQS), max_size=3, unique=True)) + ([present] if present else [])
    call = "setuptools.setup" if shape == "setuptools-dot" else "setup"
    head = "import setuptools\n" if shape == "setuptools-dot" else "from setuptools import setup\n"
    pre = ""
    if shape in ("multiline", "setuptools-dot"):
        ir = "    install_requires=[\n" + "".join(f"        {json.dumps(d)},\n" for d in deps) + "    ],\n"
    elif shape == "single-line":
        ir = "    install_requires=[" + ", ".join(json.dumps(d) for d in deps) + "],\n"
    elif shape == "empty":
        ir = "    install_requires=[],\n"
    elif shape == "non-literal":
        pre = "REQS = " + json.dumps(deps) + "\n"
        ir = "    install_requires=REQS,\n"
    else:
        ir = ""
    text = head + "\n" + pre + f"{call}(\n    name=\"demo\",\n    version=\"0.1\",\n" + ir + "    python_requires=\">=3.9\",\n)\n"
    quotes = draw(st.sampled_from(["double", "double", "single"]))
    if quotes == "single" and "'" not in text and "\\" not in text:
        text = text.replace('"', "'")
    else:
        quotes = "double"
    eol = draw(st.sampled_from(["lf", "lf", "crlf"]))
    if eol == "crlf":
        text = text.replace("\n", "\r\n")
    return text, ["py:" + shape, "py:eol=" + eol, "py:quotes=" + quotes] + (["updatable"] if shape in ("multiline", "single-line", "setuptools-dot") and deps else [])


@st.composite
def setup_cfg(draw, present):
    shape = draw(st.sampled_from(["newline", "newline", "comma", "empty", "absent", "no-options"]))
    deps = draw(st.lists(st.sampled_from([d for d in OTHER_REQS if ";" not in d and "," not in d]), max_size=3, unique=True)) + ([present] if present and "," not in present else [])
    out = ["[metadata]", "name = demo", "version = 0.1", ""]
    if draw(st.booleans()):
        out.insert(0, "# packaging configuration")
    if shape != "no-options":
        out.append("[options]")
        out.append("packages = find:")
        if shape == "newline":
            out.append("install_requires =")
            out += ["    " + d for d in deps]
        elif shape == "comma":
            out.append("install_requires = " + ", ".join(deps))
        elif shape == "empty":
            out.append("install_requires =")
        out.append("python_requires = >=3.9")
        out.append("")
    tail = draw(st.sampled_from(["sections-after", "sections-after", "deps-last", "deps-last-nofinalnl"]))
    if tail == "sections-after" or shape not in ("newline", "comma"):
        tail = "sections-after"
        out += ["[flake8]", "max-line-length = 100"]
        if deps and draw(st.booleans()):
            out += ["", "[options.extras_require]", "dev =", "    " + deps[-1]]  # the last dependency's text occurs twice in the file
    else:
        # the dependency list is the last thing in the file
        while out and out[-1] in ("", "python_requires = >=3.9"):
            out.pop()
    text = "\n".join(out) + ("" if tail == "deps-last-nofinalnl" else "\n")
    eol = draw(st.sampled_from(["lf", "lf", "crlf"]))
    if eol == "crlf":
        text = text.replace("\n", "\r\n")
    return text, ["cfg:" + shape, "cfg:eol=" + eol, "cfg:tail=" + tail] + (["updatable"] if shape == "newline" and deps else [])


GRAMMAR = {"requirements.txt": requirements_txt, "pyproject.toml": pyproject_toml, "setup.py": setup_py, "setup.cfg": setup_cfg}


@st.composite
def project(draw, adders):
    cid = draw(st.sampled_from(adders))
    pkg = ADDERS[cid][0]
    n = draw(st.sampled_from([0, 1, 1, 1, 2, 2, 3]))
    kinds = draw(st.lists(st.sampled_from(sorted(GRAMMAR)), min_size=n, max_size=n))
    manifests = []
    used = set()
    for k in kinds:
        where = draw(st.sampled_from(["", "", "", "backend/", "pkg/sub/"]))
        rel = where + k
        if rel in used:
            continue
        used.add(rel)
        present = draw(st.sampled_from(SPELLINGS[pkg])) if draw(st.integers(0, 3)) == 0 else None
        text, feats = draw(GRAMMAR[k](present))
        manifests.append({"rel": rel, "kind": k, "text": text, "features": feats, "declares": bool(present)})
    return {"codemod": cid, "manifests": manifests}


# ---------------------------------------------------------------------------- independent parsers


def canon(req: Requirement):
    return (canonicalize_name(req.name), str(req.specifier), tuple(sorted(req.extras)), str(req.marker) if req.marker else "")


def parse_reqs(kind, data: bytes):
    """-> (list of canonical requirement tuples, 'other content' fingerprint) ; raises on parse failure."""
    text = data.decode("utf-8-sig")
    if kind == "requirements.txt":
        reqs, other = [], []
        for line in text.splitlines():
            s = line.strip()
            if not s or s.startswith("#"):
                other.append(s)
                continue
            if s.startswith("-") or "://" in s:
                other.append(s)
                continue
            body = re.split(r"\s+#", s)[0].strip()
            reqs.append(canon(Requirement(body)))
        return reqs, other
    if kind == "pyproject.toml":
        doc = tomllib.loads(text)
        reqs = [canon(Requirement(d)) for d in (doc.get("project", {}).get("dependencies") or [])]
        pdeps = doc.get("tool", {}).get("poetry", {}).get("dependencies") or {}
        for name, ver in pdeps.items():
            if name == "python":
                continue
            reqs.append((canonicalize_name(name), "poetry:" + (ver if isinstance(ver, str) else json.dumps(ver, sort_keys=True)), (), ""))
        other = json.loads(json.dumps(doc, default=str))
        other.get("project", {}).pop("dependencies", None)
        other.get("tool", {}).get("poetry", {}).pop("dependencies", None)
        return reqs, other
    if kind == "setup.py":
        tree = ast.parse(text)
        reqs = None
        for n in ast.walk(tree):
            if isinstance(n, ast.Call) and (getattr(n.func, "id", None) == "setup" or getattr(n.func, "attr", None) == "setup"):
                for kw in n.keywords:
                    if kw.arg == "install_requires":
                        try:
                            reqs = [canon(Requirement(d)) for d in ast.literal_eval(kw.value)]
                        except (ValueError, SyntaxError):
                            reqs = ["<non-literal>"]
        other = [l.rstrip("\r") for l in text.split("\n")]
        return reqs or [], other
    cp = configparser.ConfigParser()
    cp.read_string(text)
    raw = cp.get("options", "install_requires", fallback="") if cp.has_section("options") else ""
    # a dangling (multi-line) list holds one requirement per line (commas inside a line belong to the version
    # specifier); a single-line value is a comma-separated list
    items = [x.strip() for x in (raw.split("\n") if "\n" in raw.strip() else raw.split(",")) if x.strip()]
    reqs = [canon(Requirement(i)) for i in items]
    other = {sec: {k: v for k, v in cp.items(sec) if not (sec == "options" and k == "install_requires")} for sec in cp.sections()}
    return reqs, other


def subsequence(small, big):
    it = iter(big)
    return all(any(x == y for y in it) for x in small)


# ---------------------------------------------------------------------------- evaluation


PAIR = ["pixee:python/url-sandbox", "pixee:python/sandbox-process-creation"]  # both need the package `security`
PAIR_SRC = "import requests\nimport subprocess\n\nurl = input()\nrequests.get(url)\nsubprocess.run(url)\n"


def run_adder(root: Path, cid, second=False, pair=False):
    proj = root / "proj"
    (proj / "src").mkdir(parents=True, exist_ok=True)
    (proj / "src" / "app.py").write_text(PAIR_SRC if pair else ADDERS[cid][1])
    out = root / ("out2.codetf" if second else "out.codetf")
    before = runner.snapshot(proj)
    res = runner.run_cli([str(proj), "--output", str(out), "--codemod-include", ",".join(PAIR) if pair else cid], cwd=str(root), output=out, timeout=900)
    after = runner.snapshot(proj)
    return res, before, after


def judge_step(cid, before, after, res, feats, case, st_, kinds_by_rel, expect_no_add=False):
    """Invariants for one run; returns the rel of the changed manifest (or None)."""
    pkg = canonicalize_name(ADDERS[cid][0])

    def viol(kind, detail):
        st_.violation(cid.split("/")[-1], kind, case, json.dumps(detail, default=str)[:6000], features=feats)

    if res.exit != 0 or res.report is None:
        viol("run-fails", {"exit": res.exit, "stderr": res.stderr[-1500:], "manifests": {r: before[r][1].decode("utf-8", "replace") for r in kinds_by_rel if r in before}})
        return None
    changed = [r for r in kinds_by_rel if before.get(r) != after.get(r)]
    if len(changed) > 1:
        viol("more-than-one-manifest-changed", {"changed": changed})
    result = next((r for r in res.report["results"] if r["codemod"] == cid), None)
    src_changed = before.get("src/app.py") != after.get("src/app.py")
    for rel in changed:
        kind = kinds_by_rel[rel]
        b, a = before[rel][1], after[rel][1]
        det = {"manifest": rel, "before": b.decode("utf-8", "replace"), "after": a.decode("utf-8", "replace")}
        try:
            rb, ob = parse_reqs(kind, b)
        except Exception as e:
            # the original did not parse with the independent parser: generator problem, not the tool's
            raise core.HarnessError(f"C14 generator produced an unparseable {kind}: {e}: {b[:200]!r}")
        try:
            ra, oa = parse_reqs(kind, a)
        except Exception as e:
            viol("manifest-no-longer-parses", {**det, "error": f"{type(e).__name__}: {e}"})
            continue
        missing = [r for r in rb if r not in ra]
        if missing:
            viol("requirement-lost", {**det, "missing": missing})
        cnt = sum(1 for r in ra if r != "<non-literal>" and r[0] == pkg)
        cnt_before = sum(1 for r in rb if r != "<non-literal>" and r[0] == pkg)
        if cnt_before >= 1:
            viol("manifest-already-declaring-the-package-was-modified", det)
        elif cnt != 1:
            viol("new-requirement-not-exactly-once", {**det, "count": cnt})
        if expect_no_add:
            viol("second-run-changed-manifest", det)
        if kind in ("requirements.txt", "setup.py"):
            if not subsequence([x for x in ob], [x for x in oa]) and kind == "requirements.txt":
                viol("non-requirement-content-lost", {**det, "other_before": ob, "other_after": oa})
            if kind == "setup.py":
                bl = [l for l in ob]
                al = [l for l in oa]
                if not subsequence([l for l in bl if "install_requires" not in l and l.strip() not in ("],", "]", ")")], al):
                    viol("non-requirement-content-lost", det)
        else:
            if ob != oa:
                viol("non-requirement-content-changed", {**det, "other_before": ob, "other_after": oa})
        # the byte-level EOL convention of the file is unrelated content too
        if (b.count(b"\r\n") > 0) != (a.count(b"\r\n") > 0) and b.strip():
            viol("line-ending-convention-changed", det)
    # (9) completeness: a manifest that can take the requirement exists, nothing declares the package, yet nothing was updated
    if src_changed and not changed and not expect_no_add and case.get("project"):
        upd = [m["rel"] for m in case["project"]["manifests"] if "updatable" in m["features"]]
        if upd and not declared_in(before, kinds_by_rel, cid):
            viol("updatable-manifest-present-but-none-updated", {"updatable": upd, "manifests": {r: before[r][1].decode("utf-8", "replace")[:600] for r in kinds_by_rel if r in before}})
    # (8) nothing could be updated although a dependency was needed
    if src_changed and not changed and result is not None:
        declared_somewhere = False
        for rel, kind in kinds_by_rel.items():
            try:
                rb, _ = parse_reqs(kind, before[rel][1])
                if any(r != "<non-literal>" and r[0] == pkg for r in rb):
                    declared_somewhere = True
            except Exception:
                pass
        desc = result.get("description", "")
        if not declared_somewhere and not expect_no_add and "could not" not in desc.lower() and "unable" not in desc.lower() and "manually" not in desc.lower():
            viol("no-manifest-updated-but-report-does-not-say-so", {"description_tail": desc[-400:], "manifests": list(kinds_by_rel)})
    return changed[0] if changed else None


def eval_project(case, stats=None):
    st_ = stats or core.Stats()
    v0 = len(st_.violations)
    cid = case["codemod"]
    feats = sorted({f for m in case["manifests"] for f in m["features"]} | ({"declares-already"} if any(m["declares"] for m in case["manifests"]) else set()))
    kinds_by_rel = {m["rel"]: m["kind"] for m in case["manifests"]}
    with runner.scratch("c14") as root:
        root = Path(root)
        runner.write_tree(root / "proj", {m["rel"]: m["text"] for m in case["manifests"]})
        res, before, after = run_adder(root, cid, pair=bool(case.get("pair")))
        changed = judge_step(cid, before, after, res, feats, {"project": case}, st_, kinds_by_rel)
        # (7) second run
        res2 = None
        if res.exit == 0:
            (root / "proj" / "src" / "app.py").write_text(PAIR_SRC if case.get("pair") else ADDERS[cid][1])  # restore the trigger: the codemod needs the dependency again
            res2, b2, a2 = run_adder(root, cid, second=True, pair=bool(case.get("pair")))
            if res2.exit == 0:
                ch2 = [r for r in kinds_by_rel if b2.get(r) != a2.get(r)]
                if ch2:
                    st_.violation(cid.split("/")[-1], "second-run-changed-manifest", {"project": case}, json.dumps({"manifest": ch2[0], "after_run1": b2[ch2[0]][1].decode("utf-8", "replace"), "after_run2": a2[ch2[0]][1].decode("utf-8", "replace")})[:6000], features=feats)
            else:
                st_.violation(cid.split("/")[-1], "second-run-fails", {"project": case}, json.dumps({"exit": res2.exit, "stderr": res2.stderr[-1200:]}), features=feats)
    labels = ["codemod:" + cid.split("/")[-1], f"manifests={len(case['manifests'])}"] + (["two-codemods-same-package"] if case.get("pair") else []) + feats + (["manifest-changed"] if changed else ["no-manifest-changed"])
    has_prior = any(m["text"].strip() for m in case["manifests"])
    st_.case(case, bool(case["manifests"]) and has_prior, labels, sample={"codemod": cid, "manifests": [{"rel": m["rel"], "text": m["text"][:300]} for m in case["manifests"]], "changed": changed})
    return st_.violations[v0:]


# ---------------------------------------------------------------------------- histories (stateful)


def declared_in(snapshot, kinds_by_rel, cid):
    """Does some manifest of the snapshot already declare the codemod's package (any version/spelling)?
    Only then must a re-run add nothing: an earlier run may have had no manifest it could update."""
    pkg = canonicalize_name(ADDERS[cid][0])
    for rel, kind in kinds_by_rel.items():
        if rel in snapshot and snapshot[rel][0] == "f":
            try:
                reqs, _ = parse_reqs(kind, snapshot[rel][1])
            except Exception:
                continue
            if any(r != "<non-literal>" and r[0] == pkg for r in reqs):
                return True
    return False


def history_machine(stats, failures, adders):
    from hypothesis.stateful import RuleBasedStateMachine, initialize, precondition, rule

    class Machine(RuleBasedStateMachine):
        def __init__(self):
            super().__init__()
            self.ctx = runner.scratch("c14h")
            self.root = Path(self.ctx.__enter__())
            self.trace = []
            self.kinds = {}

        @initialize(data=st.data())
        def setup(self, data):
            kind = data.draw(st.sampled_from(sorted(GRAMMAR)))
            text, feats = data.draw(GRAMMAR[kind](None))
            self.kinds = {kind: kind}
            runner.write_tree(self.root / "proj", {kind: text})
            self.trace.append(["init", kind, text])

        def _check(self, cid, before, after, res, expect_no_add=False):
            n0 = len(stats.violations)
            judge_step(cid, before, after, res, ["history"], {"history": list(self.trace)}, stats, self.kinds, expect_no_add)
            if len(stats.violations) > n0:
                failures.append(list(self.trace))
                raise AssertionError(stats.violations[-1]["kind"])

        @rule(cid=st.sampled_from(adders))
        def run(self, cid):
            self.trace.append(["run", cid])
            res, b, a = run_adder(self.root, cid)
            self._check(cid, b, a, res)

        @precondition(lambda self: any(t[0] == "run" for t in self.trace))
        @rule()
        def rerun_same(self):
            cid = [t for t in self.trace if t[0] == "run"][-1][1]
            self.trace.append(["rerun", cid])
            res, b, a = run_adder(self.root, cid)
            self._check(cid, b, a, res, expect_no_add=declared_in(b, self.kinds, cid))

        @rule(line=st.sampled_from(OTHER_REQS))
        def user_appends_requirement(self, line):
            p = self.root / "proj" / "requirements.txt"
            if p.exists():
                data = p.read_bytes()
                nl = b"\r\n" if b"\r\n" in data else b"\n"
                p.write_bytes(data + (b"" if data.endswith(b"\n") or not data else nl) + line.encode() + nl)
                self.trace.append(["append", line])

        def teardown(self):
            stats.case(self.trace, sum(1 for t in self.trace if t[0] in ("run", "rerun")) >= 2, ["history", f"history:steps={len(self.trace)}"], sample={"history": [t if t[0] != "init" else [t[0], t[1], t[2][:200]] for t in self.trace]})
            self.ctx.__exit__(None, None, None)

    return Machine


def run_histories(stats, n, seed_value, adders):
    from hypothesis import Phase, seed
    from hypothesis.stateful import run_state_machine_as_test

    failures = []
    M = history_machine(stats, failures, adders)
    try:
        run_state_machine_as_test(seed(seed_value)(M), settings=core.hyp_settings(n, stateful_step_count=6, phases=(Phase.generate,)))
    except AssertionError:
        pass


def replay_history(trace):
    st_ = core.Stats()
    with runner.scratch("c14r") as root:
        root = Path(root)
        kinds = {}
        for t in trace:
            if t[0] == "init":
                kinds = {t[1]: t[1]}
                runner.write_tree(root / "proj", {t[1]: t[2]})
            elif t[0] in ("run", "rerun"):
                res, b, a = run_adder(root, t[1])
                judge_step(t[1], b, a, res, ["history"], {"history": trace}, st_, kinds, expect_no_add=(t[0] == "rerun" and declared_in(b, kinds, t[1])))
            elif t[0] == "append":
                p = root / "proj" / "requirements.txt"
                if p.exists():
                    data = p.read_bytes()
                    nl = b"\r\n" if b"\r\n" in data else b"\n"
                    p.write_bytes(data + (b"" if data.endswith(b"\n") or not data else nl) + t[1].encode() + nl)
    return st_.violations


BUDGET = {"quick": {"projects": 45, "histories": 8}, "thorough": {"projects": 400, "histories": 60}}
QUICK_ADDERS = ["pixee:python/use-defusedxml", "pixee:python/harden-pickle-load", "pixee:python/flask-enable-csrf-protection"]


def shards(tier, seed):
    b = BUDGET[tier]
    adders = QUICK_ADDERS + (["pixee:python/url-sandbox"] if tier == "thorough" else [])
    return [{"projects": b["projects"], "histories": b["histories"], "pairs": 2 if tier == "quick" else 12, "adders": adders, "seed": seed * 1000 + i} for i in range(16)]


def run_shard(spec):
    stats = core.Stats()
    # two codemods of one run that need the same package (`security`): it must still be added exactly once
    core.drive(project(["pixee:python/url-sandbox"]), lambda c: eval_project(dict(c, pair=True), stats), spec["pairs"], spec["seed"] + 3)
    core.drive(project(spec["adders"]), lambda c: eval_project(c, stats), spec["projects"], spec["seed"])
    run_histories(stats, spec["histories"], spec["seed"] + 7, QUICK_ADDERS)
    return stats


def replay(case):
    if "history" in case:
        return replay_history(case["history"])
    return eval_project(case["project"])
