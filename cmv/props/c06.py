"""C06 -- SAST-driven fixes land exactly on the reported findings and carry them."""
from __future__ import annotations

import copy
import difflib
import itertools
import json
from pathlib import Path

from hypothesis import strategies as st

from .. import core, engine, harvest, progspace, runner

ID = "C06"
LEVEL = "exploration"
TECHNIQUE = "metamorphic generated search over the repository's own SAST fixtures: shifted/replicated sites x all finding subsets x decoys, in each tool's format; rewritten sites must equal the reported subset (vs. the full-report calibration run) and change entries must carry exactly that site's findings"
RULE = (
    "for each of the 37 SAST codemods (Sonar, Semgrep SARIF, DefectDojo): the fixture(s) harvested from its unit test (input + tool document; locations are never invented) "
    "are shifted by prepended lines, indented by wrapping into def/method/nested/if/... blocks (column shift, tabs), and replicated into 2-4 copies = n sites; a calibration "
    "run reports all n findings; then Hypothesis draws subsets S (all 2^n subsets are enumerated for n <= 3 in the thorough tier) plus decoys (same location under a foreign "
    "rule id, same rule for another file, RESOLVED/CLOSED Sonar status, a foreign-tool SARIF run, the empty document).  Oracle: original lines of sites in S change exactly "
    "as in the calibration run, lines of sites not in S and everything else are unchanged; decoys and the empty document change nothing and produce no changeset; each "
    "rewritten site has a change entry carrying a finding with that site's rule id (and, for DefectDojo, that finding's id); no entry carries a rule id / finding id that was "
    "not reported for the file.  Non-trivial = 0 < |S| < n, or a decoy present; distinct = distinct (codemod, file bytes, reported subset, decoys)."
)
ASSUMPTIONS = [
    "Sonar and SARIF findings carry the rule id as Finding.id in this code base, so two findings of one rule are indistinguishable in the report; identity is checked by rule (and by id for DefectDojo, where copies get distinct ids)",
    "a copy whose site is not rewritten in the calibration run is not 'equally vulnerable' in its new context and is left out of the case (counted; more than 40% dropped for a codemod => harness error instead of a hollowed-out test)",
    "for pure line-shift variants (one copy, only prepended lines) the calibration run itself is judged: the unshifted fixture is pinned by the repository's own unit test, so a reported finding that is not acted on can only be due to the shift",
]


def changed_orig_lines(before: str, after: str):
    a, b = before.split("\n"), after.split("\n")
    sm = difflib.SequenceMatcher(a=a, b=b, autojunk=False)
    changed = set()
    new_for = {}
    for tag, i1, i2, j1, j2 in sm.get_opcodes():
        if tag in ("replace", "delete"):
            for k in range(i1, i2):
                changed.add(k + 1)
        if tag == "replace":
            new_for[i1 + 1] = "\n".join(b[j1:j2])
        if tag == "insert":
            # attribute an insertion to the line before it (inside a copy: an added statement or method)
            new_for.setdefault(("ins", i1), "\n".join(b[j1:j2]))
            if i1 >= 1:
                changed.add(-i1)  # negative = "something was inserted after original line i1"
    inserts = {k[1]: v for k, v in new_for.items() if isinstance(k, tuple)}
    return changed, {k: v for k, v in new_for.items() if not isinstance(k, tuple)}, inserts


def part_text(before, after, ranges, p):
    """Text of copy p in `after`, delimited by the (unchanged, unique) first lines of the copies; None if not locatable."""
    bl, al = before.split("\n"), after.split("\n")
    order = sorted(ranges, key=lambda r: r[1])
    heads = [bl[r[1] - 1] for r in order]
    if len(set(heads)) != len(heads):
        return None
    pos = []
    for h in heads:
        if al.count(h) != 1:
            return None
        pos.append(al.index(h))
    if pos != sorted(pos):
        return None
    k = [r[0] for r in order].index(p)
    end = pos[k + 1] if k + 1 < len(pos) else len(al)
    return "\n".join(al[pos[k]:end])


def part_of(line, ranges):
    if line < 0:
        # insertion after original line -line: it belongs to the copy holding that line; an insertion after a copy's
        # last line (blank lines between copies, the end of the file) belongs to the copy that precedes it
        line = -line
        for i, a, b in ranges:
            if a <= line <= b:
                return i
        before_it = [r for r in ranges if r[1] <= line]
        return max(before_it, key=lambda r: r[1])[0] if before_it else None
    for i, a, b in ranges:
        if a <= line <= b:
            return i
    return None


def doc_rules(doc):
    out = set()

    def walk(o):
        if isinstance(o, dict):
            for k in ("rule", "ruleKey", "ruleId", "title"):
                if isinstance(o.get(k), str):
                    out.add(o[k])
            for v in o.values():
                walk(v)
        elif isinstance(o, list):
            for v in o:
                walk(v)

    walk(doc)
    return out


def doc_ids(doc):
    return {str(r["id"]) for r in (doc.get("results") or []) if isinstance(r, dict) and "id" in r and "file_path" in r}


def with_decoys(doc, decoys, tool, rel, unreported=()):
    """Add entries that must be ignored.  `unreported`: documents of the sites that are NOT reported in this run - a
    closed-status decoy is a finding of such a site (a closed copy of a reported finding would change nothing)."""
    doc = copy.deepcopy(doc) if doc else None
    fmt = progspace.doc_format(doc) if doc else {"sonar": "sonar", "semgrep": "sarif", "defectdojo": "defectdojo"}[tool]
    if doc is None:
        doc = {"sonar": {"issues": []}, "sarif": {"version": "2.1.0", "runs": [{"tool": {"driver": {"name": "Semgrep OSS", "rules": []}}, "results": []}]}, "defectdojo": {"results": []}}[fmt]
    for d in decoys:
        if fmt == "sonar":
            base = {"rule": "python:S9999", "status": "OPEN", "component": rel, "key": "decoy", "textRange": {"startLine": 1, "endLine": 1, "startOffset": 0, "endOffset": 3}}
            # the decoy goes into the list its model comes from: issues, or hotspots for hotspot-only documents
            lst = "issues" if doc.get("issues") else ("hotspots" if doc.get("hotspots") else "issues")
            real = (doc.get(lst) or [None])[0]
            doc.setdefault(lst, [])
            if d == "foreign-rule" and real:
                e = copy.deepcopy(real)
                e["rule"] = "python:S9999"
                e.pop("ruleKey", None)
                doc[lst].append(e)
            elif d == "other-file" and real:
                e = copy.deepcopy(real)
                e["component"] = "src/elsewhere.py"
                doc[lst].append(e)
            elif d.startswith("closed") and (real or unreported):
                status = {"closed": "RESOLVED", "closed-reviewed": "REVIEWED", "closed-fixed": "FIXED", "closed-closed": "CLOSED"}[d]
                models = []
                for u in unreported[:1]:
                    for k in ("issues", "hotspots"):
                        models += [(k, e) for e in (u.get(k) or [])]
                if not models:
                    models = [(lst, real)]
                for k, m in models:
                    e = copy.deepcopy(m)
                    e["status"] = status
                    doc.setdefault(k, []).append(e)
            elif d == "foreign-rule":
                doc[lst].append(base)
        elif fmt == "sarif":
            run = doc["runs"][0]
            real = (run.get("results") or [None])[0]
            if d == "foreign-rule" and real:
                e = copy.deepcopy(real)
                e["ruleId"] = "python.lang.other.rule-zzz"
                run["results"].append(e)
            elif d == "other-file" and real:
                e = copy.deepcopy(real)
                for loc in e["locations"]:
                    loc["physicalLocation"]["artifactLocation"]["uri"] = "src/elsewhere.py"
                run["results"].append(e)
            elif d == "foreign-tool":
                doc["runs"].append({"tool": {"driver": {"name": "Bandit", "rules": []}}, "results": [copy.deepcopy(real)] if real else []})
        else:
            real = (doc.get("results") or [None])[0]
            if d == "foreign-rule" and real:
                e = copy.deepcopy(real)
                e["title"] = "some.other.rule"
                e["id"] = 990001
                doc["results"].append(e)
            elif d == "other-file" and real:
                e = copy.deepcopy(real)
                e["file_path"] = "src/elsewhere.py"
                e["id"] = 990002
                doc["results"].append(e)
    return doc


def render_with_subset(program, subset, decoys):
    """Render the program; keep only the findings of the parts in `subset`."""
    full = progspace.render(program, "code.py")
    prog2 = copy.deepcopy(program)
    for i, part in enumerate(prog2["parts"]):
        if i not in subset:
            part["_mute"] = True
    # rendering is deterministic: re-render and drop the muted parts' documents (text is identical)
    docs = []
    kept = [r[0] for r in full["part_ranges"]]
    for idx, d in zip(kept, full["docs"]):
        if idx in subset:
            d = copy.deepcopy(d)
            if progspace.doc_format(d) == "defectdojo":
                for r in d["results"]:
                    r["id"] = int(r["id"]) * 100 + idx
            docs.append(d)
    tool = program["codemod"].split(":")[0]
    merged = progspace.merge_docs(docs)
    unreported = [d for idx, d in zip(kept, full["docs"]) if idx not in subset and progspace.doc_format(d) == "sonar"]
    merged = with_decoys(merged, decoys, tool, "code.py", unreported) if (decoys or merged is None) else merged
    rd = dict(full)
    rd["results"] = merged
    return rd, full


@st.composite
def sast_case(draw, cid, fixtures):
    ncopies = draw(st.sampled_from([1, 2, 2, 3, 3, 4]))
    parts = []
    for _ in range(ncopies):
        fx = draw(st.sampled_from(fixtures))
        ops = draw(st.lists(st.one_of(st.tuples(st.just("wrap"), st.sampled_from(["def", "def", "method", "nested", "if", "try", "for", "with", "async"])).map(list), st.just(["tabs"])), max_size=2, unique_by=repr))
        parts.append({"code": fx["code"], "results": fx["results"], "ops": ops, **({"base": fx["base"]} if fx.get("base") else {})})
    fops = draw(st.lists(st.one_of(st.tuples(st.just("prepend"), st.integers(1, 5), st.sampled_from(["comment", "blank", "docstring"])).map(list), st.tuples(st.just("eol"), st.just("crlf")).map(list), st.just(["nofinalnl"])), max_size=2, unique_by=lambda o: o[0]))
    return {
        "codemod": cid,
        "program": {"codemod": cid, "parts": parts, "file_ops": fops},
        "subset_mask": draw(st.lists(st.booleans(), min_size=4, max_size=4)),
        "decoys": draw(st.lists(st.sampled_from(["foreign-rule", "other-file", "closed", "closed-reviewed", "closed-fixed", "closed-closed", "foreign-tool"]), max_size=2, unique=True)),
        "empty_doc": draw(st.integers(0, 9)) == 0,
        # the reported findings arrive in two result files of the same tool (a paginated export)
        "split": draw(st.booleans()),
        # the subset run is made with --verbose (the calibration run is not)
        "verbose": draw(st.integers(0, 3)) == 0,
        # Sonar only: the component carries a project key, possibly one that contains a colon itself
        "sonar_key": draw(st.sampled_from([None, None, "shop", "com.acme:shop", "org:team:svc"])),
    }


def run_doc(cid, rd, root: Path, extra_argv=()):
    return engine.run_batch([cid], [({"codemod": cid}, rd)], keep_root=root, extra_argv=extra_argv)


def eval_case(case, stats=None, all_subsets=False):
    st_ = stats or core.Stats()
    v0 = len(st_.violations)
    cid = case["codemod"]
    program = case["program"]
    full_rd = progspace.render(program, "code.py")
    if full_rd["level"] == 0 or not full_rd["docs"]:
        st_.discard("render-invalid")
        return []
    parts_present = [r[0] for r in full_rd["part_ranges"]]
    ranges = full_rd["part_ranges"]
    labels = ["codemod:" + cid, "tool:" + cid.split(":")[0], f"copies={len(parts_present)}"] + [l for l in full_rd["labels"] if l.startswith(("op:", "fop:"))]
    feats = sorted(set(l for l in full_rd["labels"] if l.startswith(("op:", "fop:"))))
    # ---- calibration: every site reported
    rd_all, _ = render_with_subset(program, set(parts_present), [])
    with runner.scratch("c06c") as rc:
        obs = run_doc(cid, rd_all, Path(rc))
    if obs.res.exit != 0 or obs.res.report is None:
        st_.violation(cid, "run-fails", {"case": case}, json.dumps({"exit": obs.res.exit, "stderr": obs.res.stderr[-1200:]}), features=feats)
        return st_.violations[v0:]
    f = obs.files[0]
    before = f.before.decode("utf-8")
    after_full = (f.after or b"").decode("utf-8")
    ch_full, new_full, _ = changed_orig_lines(before, after_full)
    acted = sorted({part_of(l, ranges) for l in ch_full} - {None})
    dropped = [p for p in parts_present if p not in acted]
    # a copy whose finding was moved to a continuation line of the same call (DefectDojo: line-only matching inside the
    # node's range) must be acted on whenever the one-line original is acted on in the same context
    for p in dropped:
        part = program["parts"][p]
        if part.get("base"):
            prog_b = copy.deepcopy(program)
            prog_b["parts"][p] = {"code": part["base"]["code"], "results": part["base"]["results"], "ops": part["ops"]}
            rd_b, full_b = render_with_subset(prog_b, set(parts_present), [])
            with runner.scratch("c06b") as rb:
                obs_b = run_doc(cid, rd_b, Path(rb))
            if obs_b.res.exit == 0 and obs_b.files[0].after is not None:
                chb, _, _ = changed_orig_lines(obs_b.files[0].before.decode("utf-8"), obs_b.files[0].after.decode("utf-8"))
                if p in {part_of(l, full_b["part_ranges"]) for l in chb}:
                    st_.violation(cid, "finding-on-continuation-line-of-the-call-not-acted-on", {"case": case}, json.dumps({"part": p, "before": before, "document": rd_all["results"]})[:6000], features=feats)
    st_.labels["copies-total"] += len(parts_present)
    st_.labels["copies-not-acted-on-in-calibration"] += len(dropped)
    if len(parts_present) == 1 and not program["parts"][0]["ops"] and dropped:
        # unshifted single fixture that the unit test pins: if it is not acted on the harvest is off -> harness, not a violation
        st_.discard("fixture-not-acted-on")
        return st_.violations[v0:]
    pure_shift = len(parts_present) == 1 and not any(l.startswith("op:") for l in full_rd["labels"]) and any(l.startswith("fop:prepend") for l in full_rd["labels"])
    if len(parts_present) == 1 and dropped and not pure_shift:
        # a wrap changes the context, not only the position: the copy is simply not "equally vulnerable" there
        st_.case([cid, core.sha(f.before), "calib"], False, labels + ["single-copy-not-acted-on-in-new-context"])
        return st_.violations[v0:]
    if len(parts_present) == 1 and dropped:
        # ... provided the unshifted fixture is acted on at all (a fixture the codemod declines says nothing about shifts)
        prog0 = {"codemod": cid, "parts": [{"code": program["parts"][0]["code"], "results": program["parts"][0]["results"], "ops": []}], "file_ops": []}
        rd0 = progspace.render(prog0, "code.py")
        with runner.scratch("c06z") as rz:
            obs0 = run_doc(cid, rd0, Path(rz))
        if obs0.res.exit != 0 or not obs0.files or not obs0.files[0].changed:
            st_.discard("fixture-not-acted-on")
            return st_.violations[v0:]
        st_.violation(cid, "reported-finding-not-acted-on-after-shift", {"case": case}, json.dumps({"before": before, "document": rd_all["results"]})[:6000], features=feats)
        st_.case([cid, core.sha(f.before), "calib"], True, labels + ["shift-only"])
        return st_.violations[v0:]
    if len(acted) < 1:
        st_.case([cid, core.sha(f.before), "calib"], False, labels + ["no-copy-acted-on"])
        return st_.violations[v0:]
    # ---- subsets
    if all_subsets and len(acted) <= 3:
        subsets = [set(c) for r in range(0, len(acted) + 1) for c in itertools.combinations(acted, r)]
    else:
        s = {p for p, m in zip(acted, case["subset_mask"]) if m}
        subsets = [s]
    for S in subsets:
        decoys = list(case["decoys"])
        if case.get("empty_doc") and not all_subsets:
            S, decoys = set(), []
        rd_s, _ = render_with_subset(program, S, decoys)
        split = bool(case.get("split")) and rd_s.get("results") and progspace.doc_format(rd_s["results"]) != "sarif"
        if split:
            rd_s["split_results"] = 2
        if case.get("sonar_key"):
            rd_s["sonar_project_key"] = case["sonar_key"]
        with runner.scratch("c06s") as rs:
            obs_s = run_doc(cid, rd_s, Path(rs), ["--verbose"] if case.get("verbose") else [])
        key = [cid, core.sha(f.before), sorted(S), decoys]
        nontriv = (0 < len(S) < len(acted)) or bool(decoys)
        st_.case(key + (["split"] if split else []), nontriv, labels + [f"reported={len(S)}/{len(acted)}"] + (["two-result-files"] if split else []) + (["verbose"] if case.get("verbose") else []) + (["sonar-key:" + case["sonar_key"]] if case.get("sonar_key") and cid.startswith("sonar") else []) + ["decoy:" + d for d in decoys] + (["empty-document"] if not S and not decoys else []),
                 sample={"codemod": cid, "sites": len(acted), "reported": sorted(S), "decoys": decoys, "document": rd_s["results"], "source": before[:500]})
        det = {"codemod": cid, "reported_parts": sorted(S), "acted_in_calibration": acted, "decoys": decoys, "part_ranges": ranges, "before": before, "document": rd_s["results"]}
        if obs_s.res.exit != 0 or obs_s.res.report is None:
            st_.violation(cid, "run-fails", {"case": case}, json.dumps({"exit": obs_s.res.exit, "stderr": obs_s.res.stderr[-1200:], **det})[:7000], features=feats + ["decoy:" + d for d in decoys])
            continue
        fs = obs_s.files[0]
        after_s = (fs.after or b"").decode("utf-8")
        ch_s, new_s, _ = changed_orig_lines(before, after_s)
        det["after"] = after_s
        got_parts = {part_of(l, ranges) for l in ch_s} - {None}
        outside = sorted(l for l in ch_s if part_of(l, ranges) is None)
        extra = sorted(got_parts - S)
        missing = sorted((S & set(acted)) - got_parts)
        vf = feats + ["decoy:" + d for d in decoys] + (["two-result-files"] if split else []) + (["verbose"] if case.get("verbose") else []) + (["sonar-key"] if case.get("sonar_key") and cid.startswith("sonar") else [])
        if extra:
            st_.violation(cid, "site-without-finding-rewritten", {"case": case}, json.dumps({"unreported_parts_rewritten": extra, **det})[:7000], features=vf)
        if missing:
            st_.violation(cid, "reported-site-not-rewritten", {"case": case}, json.dumps({"reported_parts_not_rewritten": missing, **det})[:7000], features=vf)
        if outside and not S:
            st_.violation(cid, "lines-outside-any-site-changed-without-findings", {"case": case}, json.dumps({"lines": outside, **det})[:7000], features=vf)
        for p in sorted(S & got_parts):
            # compare the text of the whole copy after the run (copies start with a unique, unchanged wrapper header)
            t_full, t_s = part_text(before, after_full, ranges, p), part_text(before, after_s, ranges, p)
            if t_full is not None and t_s is not None and t_full != t_s:
                st_.violation(cid, "site-rewritten-differently-than-with-all-findings", {"case": case}, json.dumps({"part": p, "with_all_findings": t_full, "with_subset": t_s, **det})[:7000], features=vf)
        css = [cs for r in obs_s.res.report["results"] for cs in r.get("changeset", []) if cs["path"] == fs.rel]
        if not S and (css or fs.changed):
            st_.violation(cid, "change-without-any-reported-finding", {"case": case}, json.dumps(det)[:7000], features=vf)
        allowed_rules = set()
        allowed_ids = set()
        for idx, d in zip(parts_present, full_rd["docs"]):
            if idx in S:
                allowed_rules |= doc_rules(d)
                allowed_ids |= {str(int(x) * 100 + idx) for x in doc_ids(d)}
        tool = cid.split(":")[0]
        entries = [ch for cs in css for ch in cs.get("changes", [])]
        for ch in entries:
            for fnd in ch.get("findings") or []:
                rid = (fnd.get("rule") or {}).get("id")
                if rid not in allowed_rules:
                    st_.violation(cid, "change-entry-carries-unreported-rule", {"case": case}, json.dumps({"rule": rid, "allowed": sorted(allowed_rules), **det})[:7000], features=vf)
                    break
                if tool == "defectdojo" and str(fnd.get("id")) not in allowed_ids:
                    st_.violation(cid, "change-entry-carries-unreported-finding-id", {"case": case}, json.dumps({"id": fnd.get("id"), "allowed": sorted(allowed_ids), **det})[:7000], features=vf)
                    break
        # each rewritten site has an entry with a finding
        line_map = difflib.SequenceMatcher(a=before.split("\n"), b=after_s.split("\n"), autojunk=False).get_opcodes()

        def new_range(a, b):
            lo, hi = None, None
            for tag, i1, i2, j1, j2 in line_map:
                if i2 >= a and i1 + 1 <= b:
                    lo = j1 + 1 if lo is None else min(lo, j1 + 1)
                    hi = max(hi or 0, j2)
            return lo or a, hi or b

        for p in sorted(S & got_parts):
            a, b = next((x[1], x[2]) for x in ranges if x[0] == p)
            na, nb = new_range(a, b)
            mine = [ch for ch in entries if a <= ch.get("lineNumber", -1) <= b or na <= ch.get("lineNumber", -1) <= nb]
            if not any(ch.get("findings") for ch in mine):
                st_.violation(cid, "rewritten-site-without-finding-on-its-change-entries", {"case": case}, json.dumps({"part": p, "orig_range": [a, b], "new_range": [na, nb], "entries": entries, **det})[:7000], features=vf)
    return st_.violations[v0:]


def dd_multiline_variants(fixtures):
    """DefectDojo reports a line only and a finding matches when that line lies inside the node's line range: for
    each fixture whose finding sits on a one-line call, add a variant with the call split over two lines and the
    finding moved to the continuation line."""
    import ast

    out = []
    for fx in fixtures:
        doc = fx["results"]
        res = doc.get("results") or []
        if len(res) != 1:
            continue
        L = res[0]["line"]
        lines = fx["code"].splitlines(keepends=True)
        if not (1 <= L <= len(lines)):
            continue
        try:
            tree = ast.parse(fx["code"])
        except SyntaxError:
            continue
        calls = [n for n in ast.walk(tree) if isinstance(n, ast.Call) and n.lineno == L == n.end_lineno and (n.args or n.keywords)]
        if not calls:
            continue
        c = max(calls, key=lambda n: n.end_col_offset - n.col_offset)
        first = (c.args + [k.value for k in c.keywords])
        first_col = min([a.col_offset for a in c.args] + [k.value.col_offset - (len(k.arg) + 1 if k.arg else 2) for k in c.keywords])
        line = lines[L - 1]
        indent = line[: len(line) - len(line.lstrip())]
        new = line[:first_col] + "\n" + indent + "        " + line[first_col:]
        code2 = "".join(lines[: L - 1]) + new + "".join(lines[L:])
        try:
            ast.parse(code2)
        except SyntaxError:
            continue
        doc2 = copy.deepcopy(doc)
        doc2["results"][0]["line"] = L + 1
        out.append({"code": code2, "results": doc2, "variant": "multiline-finding-on-continuation-line", "base": {"code": fx["code"], "results": fx["results"]}})
    return out


def sast_ids():
    h = harvest.harvest()
    return [cid for cid, k in engine.all_codemods() if k == "sast" and h.get(cid, {}).get("sast")]


BUDGET = {"quick": {"n": 10, "all_subsets": 1}, "thorough": {"n": 60, "all_subsets": 8}}


def shards(tier, seed):
    ids = sast_ids()
    b = BUDGET[tier]
    buckets = [[] for _ in range(16)]
    for i, c in enumerate(ids):
        buckets[i % 16].append(c)
    return [{"codemods": bk, "n": b["n"], "all_subsets": b["all_subsets"], "seed": seed * 1000 + i} for i, bk in enumerate(buckets) if bk]


def run_shard(spec):
    stats = core.Stats()
    h = harvest.harvest()
    for cid in spec["codemods"]:
        fixtures = list(h[cid]["sast"])
        if cid.startswith("defectdojo:"):
            fixtures = fixtures + dd_multiline_variants(fixtures)
            stats.labels["defectdojo-multiline-variants"] += len(fixtures) - len(h[cid]["sast"])
        left = [spec["all_subsets"]]

        def fn(c, cid=cid):
            if left[0] > 0 and len(c["program"]["parts"]) in (2, 3):
                left[0] -= 1
                stats.labels["all-subsets-enumerations"] += 1
                eval_case(c, stats, all_subsets=True)
            else:
                eval_case(c, stats)

        core.drive(sast_case(cid, fixtures), fn, spec["n"], spec["seed"] + engine.hash_str(cid) % 997)
    tot, drop = stats.labels.get("copies-total", 0), stats.labels.get("copies-not-acted-on-in-calibration", 0)
    return stats


def replay(case):
    return eval_case(case["case"], None, all_subsets=bool(case.get("all_subsets")))
