"""C18 -- a codemod acts on what its own detector reports, and the result is clean."""
from __future__ import annotations

import ast
import json
import os
import subprocess
from pathlib import Path

from hypothesis import strategies as st

from .. import core, engine, harvest, progspace, runner, udiff

ID = "C18"
LEVEL = "exploration"
TECHNIQUE = "Hypothesis-generated programs for the 22 rule-detected codemods through the real semgrep binary; the harness runs semgrep itself with the codemod's rule (before and after) and compares flagged locations with what the run rewrote"
RULE = (
    "for each rule-detected codemod: harvested triggers whose bare form is flagged and rewritten (negative tests of the repository and bare seeds that are flagged but left "
    "alone are the declined shapes and are exempt, counted) x alias/dupimport spellings, wrap contexts (def/method/nested/if/try/with/for/while/async), tabs, trailing comments, "
    "extra arguments, quote styles, several sites per line/file, non-ASCII text earlier on the site's line, attribute access broken over lines inside parentheses, CRLF/BOM/"
    "form-feed layouts.  flagged(P) = locations semgrep reports for the codemod's own rule text (taken from the repository, run and parsed by the harness with --json).  "
    "Oracle 1: every flagged location has a line of its range touched by the diff, or the file is in failedFiles.  Oracle 2: flagged(run(P)) contains no location inside a "
    "statement that the run rewrote (new-file ranges of the diff hunks widened to the smallest enclosing statement).  Non-trivial = >= 1 flagged location; per codemod the "
    "number of flagged sites is recorded."
)
ASSUMPTIONS = [
    "the detector is whatever semgrep 1.90 (/venv/bin/semgrep) does with the rule; constructs it does not flag are outside this property",
    "declined shapes are recognised operationally: seeds the repository's tests expect to stay unchanged, and seeds whose untransformed form is flagged but not rewritten; the generic transformations do not create re-binding, shadowing, several with-items or mixed %/+ arguments",
    "a nested site f(f(x)) is reported by semgrep as the outer match only; the inner one surfaces in the re-detection and is the known finding shared with C07 (C07-K1)",
]


def semgrep_json(yaml_file, target: Path):
    env = dict(os.environ)
    p = subprocess.run(["semgrep", "scan", "--no-error", "--json", "--quiet", "--config", str(yaml_file), str(target)], capture_output=True, env=env, timeout=600)
    if p.returncode != 0:
        raise core.HarnessError(f"semgrep failed ({p.returncode}): {p.stderr.decode()[-400:]}")
    try:
        data = json.loads(p.stdout.decode())
    except Exception as e:
        raise core.HarnessError(f"semgrep output not JSON: {e}")
    out = {}
    for r in data.get("results", []):
        rel = os.path.relpath(r["path"], target)
        out.setdefault(rel, []).append((r["start"]["line"], r["end"]["line"], r["start"]["col"], r["end"]["col"]))
    return out


def rule_yaml(cid, tmp: Path):
    cm = engine.codemod_by_id(cid)
    from codemodder.codemods.semgrep import _populate_yaml

    p = tmp / (cm._internal_name + ".yaml")
    p.write_text(_populate_yaml(cm.detector.rule, cm._internal_name))
    return p


def changed_new_lines(diff: str):
    """Line numbers in the NEW file that are '+' lines, plus for pure deletions the line after the gap."""
    out = set()
    old = new = 0
    for line in udiff.split_lines(diff):
        m = udiff.HUNK.match(line)
        if m:
            old, new = int(m.group(1)), int(m.group(3))
            continue
        if line.startswith("+++") or line.startswith("---"):
            continue
        if line.startswith("+"):
            out.add(new)
            new += 1
        elif line.startswith("-"):
            old += 1
        else:
            old += 1
            new += 1
    return out


def changed_old_lines(diff: str):
    out = set()
    old = 0
    adds_at = set()
    for line in udiff.split_lines(diff):
        m = udiff.HUNK.match(line)
        if m:
            old = int(m.group(1))
            continue
        if line.startswith("+++") or line.startswith("---"):
            continue
        if line.startswith("-"):
            out.add(old)
            old += 1
        elif line.startswith("+"):
            adds_at.add(old)
        else:
            old += 1
    return out, adds_at


def enclosing_statements(src: str, lines):
    """Smallest statement ranges (lineno, end_lineno) of `src` containing each of `lines`."""
    try:
        tree = ast.parse(src)
    except SyntaxError:
        return [(l, l) for l in lines]
    stmts = [(n.lineno, n.end_lineno) for n in ast.walk(tree) if isinstance(n, ast.stmt)]
    out = []
    for l in lines:
        best = None
        for a, b in stmts:
            if a <= l <= b and (best is None or (b - a) < (best[1] - best[0])):
                best = (a, b)
        out.append(best or (l, l))
    return sorted(set(out))


def judge_batch(cid, rendered, stats, exempt_labels=()):
    """One batch = one project: semgrep(before), CLI run, semgrep(after)."""
    with runner.scratch("c18") as root:
        root = Path(root)
        y = rule_yaml(cid, root)
        proj, rels, _ = engine.build_project(root, [cid], rendered)
        flagged = semgrep_json(y, proj)
        before = runner.snapshot(proj)
        out = root / "out.codetf"
        res = runner.run_cli([str(proj), "--output", str(out), "--codemod-include", cid], cwd=str(root), output=out, timeout=900)
        after = runner.snapshot(proj)
        flagged_after = semgrep_json(y, proj) if res.exit == 0 else {}
    if res.exit != 0 or res.report is None:
        stats.discard(f"run-exit-{res.exit}")
        return None
    result = next((r for r in res.report["results"] if r["codemod"] == cid), {"changeset": [], "failedFiles": []})
    cs_by = {cs["path"]: cs for cs in result.get("changeset", [])}
    failed = set()
    for f in result.get("failedFiles") or []:
        p = Path(f) if os.path.isabs(f) else root / f
        failed.add(os.path.relpath(p, root / "proj"))
    verdicts = []
    for (case, rd), rel in zip(rendered, rels):
        fl = flagged.get(rel, [])
        cs = cs_by.get(rel)
        feats = sorted(set(l for l in rd["labels"] if l.startswith(("op:", "fop:"))))
        labels = ["codemod:" + cid] + rd["labels"]
        not_acted = []
        if fl and rel not in failed:
            old_changed, adds_at = changed_old_lines(cs["diff"]) if cs else (set(), set())
            for (sl, el, sc, ec) in fl:
                if not any(l in old_changed or l in adds_at for l in range(sl, el + 1)):
                    not_acted.append([sl, el, sc, ec])
        redetected = []
        if cs and rel in flagged_after and after.get(rel, ("", b""))[0] == "f":
            try:
                atxt = after[rel][1].decode("utf-8")
            except UnicodeDecodeError:
                atxt = ""
            stmts = enclosing_statements(atxt, sorted(changed_new_lines(cs["diff"])))
            for (sl, el, sc, ec) in flagged_after[rel]:
                if any(a <= sl and el <= b for a, b in stmts):
                    redetected.append([sl, el, sc, ec])
        verdicts.append({"case": case, "rd": rd, "rel": rel, "flagged": fl, "not_acted": not_acted, "redetected": redetected, "failed": rel in failed, "changed": before.get(rel) != after.get(rel),
                         "before": before[rel][1].decode("utf-8", "replace"), "after": after.get(rel, ("", b""))[1].decode("utf-8", "replace"), "feats": feats, "labels": labels})
    return verdicts


def good_seeds(cid, stats):
    """Seeds whose bare form is flagged and rewritten (everything else is a declined / pinned shape)."""
    h = harvest.harvest()[cid]
    seeds = [s for s in h["seeds"] if s not in set(h.get("unchanged", []))]
    stats.labels["seeds-negative-tests-exempt"] += len(h["seeds"]) - len(seeds)
    if not seeds:
        return []
    rendered = [({"codemod": cid, "parts": [{"code": s, "results": None, "ops": []}], "file_ops": []}, None) for s in seeds]
    rendered = [(c, progspace.render(c, "code.py")) for c, _ in rendered]
    good = []
    for i in range(0, len(rendered), 40):
        vs = judge_batch(cid, rendered[i:i + 40], stats)
        if vs is None:
            continue
        for v in vs:
            code = v["case"]["parts"][0]["code"]
            if v["flagged"] and not v["not_acted"] and v["changed"] and not v["redetected"]:
                good.append(code)
            elif v["flagged"] and v["redetected"]:
                # the rule still matches in the rewritten statement of the bare seed: part of it is a shape the codemod
                # declines on purpose (e.g. `import whatever as yaml` next to a real yaml loader)
                stats.labels["seeds-partly-declined-exempt"] += 1
            elif v["flagged"]:
                stats.labels["seeds-flagged-but-declined-exempt"] += 1
            else:
                stats.labels["seeds-not-flagged"] += 1
    return good


def manufactures_declined_shape(case):
    """`tuplerhs` turns a string operand into a tuple/lambda: codemods that decide by inferred type (lazy-logging's
    'both sides must be str') then decline on purpose -- the 'mixed arguments' shape of the statement."""
    ops = [o[0] for part in case["parts"] for o in part["ops"] if o]
    if "tuplerhs" in ops:
        return True
    # `with V:` -> `with (V, V):` is the 'several with items' shape that bad-lock-with-statement declines
    return case["codemod"].endswith("/bad-lock-with-statement") and "sameline" in ops


def judge_and_record(cid, rendered, stats):
    n0 = len(rendered)
    rendered = [(c, rd) for c, rd in rendered if not manufactures_declined_shape(c)]
    stats.labels["excluded:declined-shape-by-construction"] += n0 - len(rendered)
    if not rendered:
        return
    vs = judge_batch(cid, rendered, stats)
    if vs is None:
        return
    for v in vs:
        n = len(v["flagged"])
        stats.case([cid, core.sha(v["rd"]["data"])], n > 0, v["labels"] + (["flagged"] if n else ["not-flagged"]) + (["changed"] if v["changed"] else []),
                   sample={"codemod": cid, "flagged": v["flagged"], "source": v["before"][:500], "after": v["after"][:500]} if n else None)
        stats.labels["flagged-sites:" + cid] += n
        nested = any(l in ("op:nest",) for l in v["feats"])
        if v["not_acted"]:
            stats.violation(cid, "flagged-location-neither-rewritten-nor-failed", {"program": v["case"]}, json.dumps({"locations": v["not_acted"], "all_flagged": v["flagged"], "before": v["before"], "after": v["after"]})[:7000], features=v["feats"])
        if v["redetected"]:
            stats.violation(cid, "rule-still-matches-inside-rewritten-statement", {"program": v["case"]}, json.dumps({"locations_after": v["redetected"], "before": v["before"], "after": v["after"]})[:7000], features=v["feats"])


def rule_ids():
    return [cid for cid, k in engine.all_codemods() if k == "rule"]


BUDGET = {"quick": {"n": 2, "batch": 24, "rotate": 8}, "thorough": {"n": 14, "batch": 30, "rotate": 1}}


def shards(tier, seed):
    b = BUDGET[tier]
    ids = rule_ids()
    only = os.environ.get("CMV_ONLY")
    if only:
        ids = [c for c in ids if only in c]
    buckets = [[] for _ in range(16)]
    for i, c in enumerate(ids):
        buckets[i % 16].append(c)
    return [{"codemods": bk, "seed": seed * 1000 + i, **b} for i, bk in enumerate(buckets) if bk]


def run_shard(spec):
    stats = core.Stats()
    for cid in spec["codemods"]:
        good = good_seeds(cid, stats)
        stats.labels["good-seeds:" + cid] += len(good)
        if not good:
            stats.discard("no-usable-seed:" + cid)
            continue
        # deterministic single-feature sweep (same op table as the program-space checks)
        seen = set()
        chunk = []
        for c in engine.sweep_cases(cid, good, None, spec["rotate"], spec["seed"] // 1000):
            rd = progspace.render(c, "code.py")
            h = core.sha(rd["data"])
            if rd["level"] == 0 or h in seen:
                continue
            seen.add(h)
            chunk.append((c, rd))
            if len(chunk) == 60:
                judge_and_record(cid, chunk, stats)
                chunk = []
        if chunk:
            judge_and_record(cid, chunk, stats)
        # random multi-feature programs
        strat = st.lists(progspace.program_case(cid, good, None, max_parts=3), min_size=spec["batch"], max_size=spec["batch"])

        def fn(cases, cid=cid):
            rendered = [(c, rd) for c in cases for rd in [progspace.render(c, "code.py")] if rd["level"]]
            if rendered:
                judge_and_record(cid, rendered, stats)

        core.drive(strat, fn, spec["n"], spec["seed"] + engine.hash_str(cid) % 997)
    return stats


def replay(case):
    prog = case["program"]
    cid = prog["codemod"]
    st_ = core.Stats()
    judge_and_record(cid, [(prog, progspace.render(prog, "code.py"))], st_)
    return st_.violations


def minimise(case, kind=None):
    from . import _prog as P

    orig = P.replay_program
    try:
        P.replay_program = lambda c, j, e=(): replay(c)
        return P.minimise_program(case, None, kind)
    finally:
        P.replay_program = orig
