"""C04 -- --dry-run never touches the project and predicts the real run."""
from __future__ import annotations

import copy
import json

from hypothesis import strategies as st

from .. import core, engine, harvest, progspace, runner
from . import _prog
from .c03 import ADDERS, MANIFESTS, UNUSABLE, manifest_bytes, manifest_files

ID = "C04"
LEVEL = "exploration"
TECHNIQUE = "Hypothesis-generated projects x codemods x CLI options; differential oracle: snapshot before == snapshot after --dry-run, and report(dry) == report(real run on the same tree) modulo timing/command line"
RULE = (
    "for every registered codemod (rule-detected and SAST ones included; dependency-adding codemods with a manifest of each of the four kinds in "
    "LF/CRLF/no-final-newline/trailing-blank variants) Hypothesis draws a project (generated programs of the C01 space + optional manifest) and other "
    "options (--path-include/--path-exclude, --max-workers, --verbose, --log-format json, --project-name, directory spelled absolute/relative/./x/x/).  "
    "Run 1 with --dry-run: the whole project tree must be byte-identical afterwards (no creation, modification, deletion).  Run 2 without it on the same "
    "tree: report 1 == report 2 after deleting run.elapsed and run.commandLine.  Non-trivial = the real run changed >= 1 file; 'deep' = a manifest "
    "changed in the real run.  Distinct = distinct (codemod, project bytes, options)."
)
ASSUMPTIONS = [
    "single codemod per case, as the statement says; the report and semgrep's temporary files live outside the target directory",
    "reports are compared as parsed JSON after removing run.elapsed and run.commandLine (which contains the flag and the output path)",
]

DEP_ADDERS_ALL = None


def dep_adders():
    """codemods observed (from the harvested seeds' docs) to add a dependency: the detector-less adders plus url-sandbox / sandbox-process-creation / defusedxml twins"""
    names = ("use-defusedxml", "harden-pickle-load", "flask-enable-csrf-protection", "url-sandbox", "sandbox-process-creation")
    return [cid for cid, _ in engine.all_codemods() if cid.split("/")[-1] in names]


@st.composite
def options(draw):
    opts = []
    if draw(st.integers(0, 3)) == 0:
        opts += ["--max-workers", str(draw(st.sampled_from([1, 2, 4])))]
    if draw(st.integers(0, 4)) == 0:
        opts += ["--verbose"]
    if draw(st.integers(0, 4)) == 0:
        opts += ["--log-format", "json"]
    if draw(st.integers(0, 4)) == 0:
        opts += ["--project-name", "demo"]
    if draw(st.integers(0, 4)) == 0:
        opts += ["--path-include", "*.py"]
    if draw(st.integers(0, 4)) == 0:
        opts += ["--path-exclude", "README.txt"]
    return opts


def normalise(rep):
    rep = copy.deepcopy(rep)
    rep["run"].pop("elapsed", None)
    rep["run"].pop("commandLine", None)
    return rep


def handle(cid, kind, rendered, stats, opts, manifest, dirstyle):
    mkind, mvar = manifest[:2]
    extra = manifest_files(manifest)
    with runner.scratch("c04") as root:
        proj, rels, res_argv = engine.build_project(root, [cid], rendered, extra)
        d = {"abs": str(proj), "rel": "proj", "dot": "./proj", "slash": "proj/"}[dirstyle]
        base = [d, "--codemod-include", cid] + res_argv + opts
        before = runner.snapshot(root / "proj")
        outside_before = {k: v for k, v in runner.snapshot(root).items() if not k.startswith("proj")}
        r1 = runner.run_cli(base + ["--output", str(root / "dry.codetf"), "--dry-run"], cwd=str(root), output=root / "dry.codetf", timeout=900)
        mid = runner.snapshot(root / "proj")
        r2 = runner.run_cli(base + ["--output", str(root / "real.codetf")], cwd=str(root), output=root / "real.codetf", timeout=900)
        after = runner.snapshot(root / "proj")
    labels = ["kind:" + kind, "codemod:" + cid, "manifest:" + mkind + ("/" + mvar if mkind != "none" else ""), "dir:" + dirstyle] + (["unusable-manifest-first"] if len(manifest) > 2 and manifest[2] else []) + ["opt:" + o for o in opts if o.startswith("--")]
    key = [cid, core.sha(json.dumps(sorted((k, core.sha(v[1]) if v[0] == "f" else v[0]) for k, v in before.items()))), opts, dirstyle]
    feats = sorted(set(l for _, rd in rendered for l in rd["labels"] if l.startswith(("op:", "fop:")))) + (["manifest:" + mkind, "manifest-variant:" + mvar] if mkind != "none" else [])
    case = {"codemod": cid, "programs": [c for c, _ in rendered], "opts": opts, "manifest": manifest, "dirstyle": dirstyle}
    if r1.exit != 0 or r2.exit != 0 or r1.report is None or r2.report is None:
        stats.discard(f"exit-{r1.exit}/{r2.exit}")
        stats.case(key, False, labels + ["run-failed"])
        if (r1.exit == 0) != (r2.exit == 0):
            stats.violation(cid, "dry-and-real-run-exit-differently", case, json.dumps({"dry": r1.exit, "real": r2.exit, "stderr_dry": r1.stderr[-400:], "stderr_real": r2.stderr[-400:]}), features=feats)
        return
    created, deleted, modified = runner.snap_diff(before, mid)
    real_created, real_deleted, real_modified = runner.snap_diff(mid, after)
    nontriv = bool(real_modified)
    deep = any(m.rsplit("/", 1)[-1] in MANIFESTS for m in real_modified)
    if any(m.rsplit("/", 1)[-1] in MANIFESTS for m in modified):
        feats = feats + ["manifest-written-in-dry-run"]
    stats.case(key, nontriv, labels + (["real-run-changed-files"] if nontriv else []) + (["deep:manifest-changed"] if deep else []),
               sample={"codemod": cid, "opts": opts, "manifest": manifest, "dir": dirstyle, "real_run_modified": real_modified})
    if created or deleted or modified:
        stats.violation(cid, "dry-run-touched-tree", case, json.dumps({"created": created, "deleted": deleted, "modified": modified}), features=feats)
    n1, n2 = normalise(r1.report), normalise(r2.report)
    if n1 != n2:
        # locate
        where = "run" if n1["run"] != n2["run"] else "results"
        detail = {"where": where}
        if where == "results":
            for a, b in zip(n1["results"], n2["results"]):
                if a != b:
                    ks = [k for k in set(a) | set(b) if a.get(k) != b.get(k)]
                    detail.update({"codemod": a.get("codemod"), "fields": ks, "dry": {k: a.get(k) for k in ks}, "real": {k: b.get(k) for k in ks}})
                    break
        else:
            detail.update({"dry": n1["run"], "real": n2["run"]})
        stats.violation(cid, "dry-report-differs-from-real-report", case, json.dumps(detail, default=str)[:5000], features=feats)


def shards(tier, seed):
    out = engine.codemod_shards(tier, seed + 41, per_shard_quick=1, per_shard_thorough=12, batch=4)
    return out


def run_shard(spec):
    stats = core.Stats()
    adders = set(dep_adders())
    for cid, kind in spec["codemods"]:
        seeds, sast = engine.seeds_for(cid)
        if not seeds and not sast:
            continue
        strat = st.tuples(
            st.lists(progspace.program_case(cid, seeds, sast, max_parts=2), min_size=spec["batch"], max_size=spec["batch"]),
            options(),
            st.tuples(st.sampled_from(sorted(MANIFESTS)), st.sampled_from(["lf", "crlf", "nofinalnl", "trailing-blank"]),
                      st.one_of(st.just([]), st.lists(st.sampled_from(sorted(UNUSABLE)), min_size=1, max_size=2, unique=True))) if cid in adders else
            st.sampled_from([("none", "lf"), ("none", "lf"), ("requirements.txt", "lf")]),
            st.sampled_from(["abs", "abs", "rel", "dot", "slash"]),
        )

        def fn(t, cid=cid, kind=kind):
            cases, opts, manifest, dirstyle = t
            rendered = [(c, rd) for c in cases for rd in [progspace.render(c, "code.py")] if rd["level"]]
            if rendered:
                handle(cid, kind, rendered, stats, opts, list(manifest), dirstyle)

        n = spec["n"] * (3 if cid in adders else 1)
        core.drive(strat, fn, max(2, n), spec["seed"] + engine.hash_str(cid) % 997)
    return stats


def replay(case):
    stats = core.Stats()
    cid = case["codemod"]
    rendered = [(c, progspace.render(c, "code.py")) for c in case["programs"]]
    handle(cid, engine.kind_of(engine.codemod_by_id(cid)), rendered, stats, case["opts"], case["manifest"], case["dirstyle"])
    return stats.violations
