"""C13 -- line-level include/exclude is honoured and change entries name the edited line."""
from __future__ import annotations

import difflib
import json
from pathlib import Path

from hypothesis import strategies as st

from .. import core, engine, harvest, progspace, runner

ID = "C13"
LEVEL = "exploration"
TECHNIQUE = "Hypothesis-generated multi-site files x line subsets x pattern spellings; differential oracle against the unfiltered run of the same codemod (which lines are single-line sites is measured, not assumed)"
RULE = (
    "for every find-and-fix codemod (detector-less and rule-detected): a file with 2-5 sites built from per-function copies of harvested single-site triggers; the "
    "set L of single-line sites is measured from an unfiltered run (1->1 'replace' opcodes of before/after; insertions such as added imports are not sites); Hypothesis "
    "draws a proper non-empty subset as --path-exclude path:line or --path-include path:line entries, spelled relative to the target, with '*' or '**/' globs, or "
    "absolute, alone or together with a file-level pattern.  Oracle: excluded / not-included lines are byte-identical, permitted sites are rewritten exactly as in the "
    "unfiltered run, no change entry names a forbidden line, every rewritten single-line site has a change entry with its line number (original or new numbering "
    "accepted per entry).  Non-trivial = proper subset and >= 1 permitted site rewritten; distinct = distinct (codemod, file bytes, patterns)."
)
ASSUMPTIONS = [
    "a change entry's lineNumber is accepted in original or in new-file numbering (the code reports the original node position, CodeTF's diffSide says 'right'; the statement does not choose)",
    "a class statement with a body on following lines is a multi-line construct (exempt); a function definition counts as a one-line construct because the code matches it by its header line",
    "multi-line constructs are exempt from the line-number clause, as in the statement; sites are counted only where the unfiltered run replaces exactly one line by one line",
    "SAST codemods are out of this property's quantifier (find-and-fix codemods K)",
]

SPELLINGS = ["relative", "star", "dstar", "absolute"]


def spell(kind, proj: Path, rel: str):
    name = rel.rsplit("/", 1)[-1]
    return {"relative": rel, "star": "*" + name, "dstar": "**/" + name, "absolute": str(proj / rel)}[kind]


def single_line_sites(before: str, after: str):
    """-> list of (orig_line, new_line, new_text) for 1->1 replacements."""
    a = before.split("\n")
    b = after.split("\n")
    sm = difflib.SequenceMatcher(a=a, b=b, autojunk=False)
    sites = []
    for tag, i1, i2, j1, j2 in sm.get_opcodes():
        # exactly one line replaced by exactly one line (larger blocks may pair unrelated lines)
        if tag == "replace" and i2 - i1 == 1 and j2 - j1 == 1 and a[i1].strip():
            sites.append((i1 + 1, j1 + 1, b[j1]))
    return sites


def import_alias_lines(src: str):
    """Physical lines that hold exactly one alias of a multi-line (parenthesised) import statement."""
    import ast

    out = set()
    try:
        tree = ast.parse(src)
    except SyntaxError:
        return out
    for n in ast.walk(tree):
        if isinstance(n, (ast.Import, ast.ImportFrom)) and n.end_lineno > n.lineno:
            per_line = {}
            for a in n.names:
                if a.lineno == a.end_lineno:
                    per_line.setdefault(a.lineno, []).append(a)
            for l, al in per_line.items():
                if len(al) == 1 and l != n.lineno:
                    out.add(l)
    return out


def logical_line_ranges(src: str):
    """physical line -> (first, last) physical line of the logical line (statement) it belongs to."""
    import io
    import tokenize

    out = {}
    start = None
    try:
        for t in tokenize.generate_tokens(io.StringIO(src).readline):
            if t.type in (tokenize.NL, tokenize.COMMENT, tokenize.INDENT, tokenize.DEDENT, tokenize.ENDMARKER):
                continue
            if start is None:
                start = t.start[0]
            if t.type == tokenize.NEWLINE:
                for l in range(start, t.end[0] + 1 if t.end[1] else t.end[0]):
                    out[l] = (start, t.start[0])
                out[t.start[0]] = (start, t.start[0])
                start = None
    except (tokenize.TokenError, IndentationError, SyntaxError):
        pass
    return out


def line_status(before: str, after: str):
    """orig line -> ('equal', new_line) | ('replace', new_line, new_text) | ('other',)"""
    a = before.split("\n")
    b = after.split("\n")
    sm = difflib.SequenceMatcher(a=a, b=b, autojunk=False)
    st_ = {}
    for tag, i1, i2, j1, j2 in sm.get_opcodes():
        for k in range(i2 - i1):
            if tag == "equal":
                st_[i1 + k + 1] = ("equal", j1 + k + 1)
            elif tag == "replace" and i2 - i1 == 1 and j2 - j1 == 1:
                st_[i1 + k + 1] = ("replace", j1 + k + 1, b[j1 + k])
            else:
                st_[i1 + k + 1] = ("other",)
    return st_


@st.composite
def line_case(draw, cid, seeds):
    n = draw(st.integers(2, 5))
    parts = []
    for _ in range(n):
        parts.append({"code": draw(st.sampled_from(seeds)), "results": None, "ops": draw(st.sampled_from([[], [], [["mlimport"]]])) + [["wrap", draw(st.sampled_from(["def", "def", "method", "nested", "async"]))]]})
    return {
        "codemod": cid,
        "program": {"codemod": cid, "parts": parts, "file_ops": draw(st.lists(st.sampled_from([["prepend", 2, "comment"], ["eol", "crlf"], ["append", 1]]), max_size=1))},
        "mode": draw(st.sampled_from(["exclude", "exclude", "include"])),
        "mask": draw(st.lists(st.booleans(), min_size=8, max_size=8)),
        # absolute spellings are only promised (and pinned by the repository's test utilities) for excludes:
        # file selection by include patterns works on relative paths
        "spelling": draw(st.sampled_from(SPELLINGS + ["mixed"])),
        # "mixed": every line pattern of the list gets its own spelling (`*.py:2,src/m0.py:6`)
        "spell_each": draw(st.lists(st.sampled_from(SPELLINGS), min_size=8, max_size=8)),
        "with_file_pattern": draw(st.booleans()),
        # a second file whose path ends in the same components (vendor/src/m0.py): a relative or absolute pattern for
        # src/m0.py must not apply to it
        "twin": draw(st.booleans()),
    }


TWIN = "vendor/src/m0.py"


def run_once(cid, rd, extra_argv, root: Path, twin=False):
    obs = engine.run_batch([cid], [(None, rd)], extra_argv=extra_argv, keep_root=root, extra_files={TWIN: rd["data"]} if twin else None)
    return obs


def eval_case(case, stats=None):
    st_ = stats or core.Stats()
    v0 = len(st_.violations)
    cid = case["codemod"]
    rd = progspace.render(case["program"], "code.py")
    if rd["level"] == 0:
        st_.discard("render-invalid")
        return []
    kind = engine.kind_of(engine.codemod_by_id(cid))
    labels = ["kind:" + kind, "codemod:" + cid, "mode:" + case["mode"], "spelling:" + case["spelling"]] + (["twin-file"] if case.get("twin") else [])
    with runner.scratch("c13u") as ru:
        obs_u = run_once(cid, rd, [], Path(ru), case.get("twin"))
    if obs_u.res.exit != 0 or obs_u.res.report is None:
        st_.discard(f"unfiltered-exit-{obs_u.res.exit}")
        return []
    f_u = obs_u.files[0]
    try:
        before = f_u.before.decode("utf-8")
        after_u = (f_u.after or b"").decode("utf-8")
    except UnicodeDecodeError:
        return []
    sites = single_line_sites(before, after_u)
    # a replaced line is a *site* only if it is a whole logical line on its own (not one line of a multi-line
    # call or literal) and the unfiltered run reports a change entry for it (an import line rewritten as a side effect of a
    # site elsewhere is not a site); both numberings accepted
    entries_u = {ch.get("lineNumber") for r in obs_u.res.report["results"] for cs in r.get("changeset", []) if cs["path"] == f_u.rel for ch in cs.get("changes", [])}
    ranges = logical_line_ranges(before)

    def standalone(l):
        # a `class` header whose body follows on later lines belongs to a multi-line construct (the code matches a
        # ClassDef by its whole extent; only FunctionDef is matched by its header line, see UtilsMixin.node_position)
        txt = before.split("\n")[l - 1].lstrip()
        if txt.startswith("class ") and not txt.rstrip().endswith(("pass", "...")):
            return False
        return ranges.get(l) == (l, l)

    alias_lines = import_alias_lines(before)
    st_u = line_status(before, after_u)
    # (measurement is conservative: the entry must name the line in original numbering, which is what the code
    # reports; a line that merely coincides with another site's new number is not taken for a site)
    sites = [s for s in sites if s[0] in entries_u and (standalone(s[0]) or s[0] in alias_lines)]
    # an import alias on a line of its own inside a parenthesised import is a one-line construct too; the edit is
    # usually the deletion of that line
    deleted_alias_sites = sorted(l for l in alias_lines if l in entries_u and st_u.get(l, ("equal",))[0] == "other" and l not in [s[0] for s in sites])
    L = sorted([s[0] for s in sites] + deleted_alias_sites)
    if len(L) < 2:
        st_.case([cid, core.sha(f_u.before), "few-sites"], False, labels + ["fewer-than-2-single-line-sites"])
        return []
    chosen = [l for l, m in zip(L, case["mask"]) if m]
    if not chosen or len(chosen) == len(L):
        chosen = L[:1]
    rel = f_u.rel
    with runner.scratch("c13f") as rf:
        root = Path(rf)
        proj = root / "proj"
        def legal(sp):
            return sp if not (case["mode"] == "include" and sp == "absolute") else "relative"

        spelling = legal(case["spelling"])
        opt = "--path-exclude" if case["mode"] == "exclude" else "--path-include"
        if spelling == "mixed":
            each = [legal(sp) for sp in (case.get("spell_each") or SPELLINGS * 2)]
            # at least one spelling that matches only the relative name and one that also matches the absolute name
            used = each[: max(2, len(chosen))]
            if "relative" not in used:
                each[0] = "relative"
            if not [sp for sp in each[: max(2, len(chosen))] if sp != "relative"]:
                each[1] = "star"
            items = [f"{spell(each[i % len(each)], proj, rel)}:{l}" for i, l in enumerate(chosen)]
        else:
            pat = spell(spelling, proj, rel)
            items = [f"{pat}:{l}" for l in chosen]
        if case["with_file_pattern"]:
            # a file-level pattern that does not change which files are selected
            items = items + (["zz_nothing/*"] if case["mode"] == "exclude" else [])
        if case.get("twin") and case["mode"] == "include":
            items = items + [TWIN + ":99999"] if False else items
        obs_f = run_once(cid, rd, [opt, ",".join(items)], root, case.get("twin"))
    if obs_f.res.exit != 0 or obs_f.res.report is None:
        st_.violation(cid, "filtered-run-fails", {"case": case}, json.dumps({"exit": obs_f.res.exit, "stderr": obs_f.res.stderr[-800:], "patterns": items}), features=["mode:" + case["mode"], "spelling:" + case["spelling"]])
        return st_.violations[v0:]
    f_f = obs_f.files[0]
    after_f = (f_f.after or b"").decode("utf-8")
    forbidden = set(chosen) if case["mode"] == "exclude" else set(L) - set(chosen)
    permitted = set(L) - forbidden
    status = line_status(before, after_f)
    new_text = {s[0]: s[2] for s in sites}
    feats = ["mode:" + case["mode"], "spelling:" + case["spelling"]]
    det = {"codemod": cid, "patterns": items, "option": opt, "sites": L, "forbidden": sorted(forbidden), "before": before, "after_unfiltered": after_u, "after_filtered": after_f}
    rewritten = set()
    bad_forbidden = [l for l in sorted(forbidden) if status.get(l, ("other",))[0] != "equal"]
    if bad_forbidden:
        st_.violation(cid, "forbidden-line-rewritten", {"case": case}, json.dumps({"lines": bad_forbidden, **det})[:7000], features=feats)
    not_fixed = []
    deleted_alias_sites = set(deleted_alias_sites)
    for l in sorted(permitted):
        s = status.get(l, ("other",))
        if l in deleted_alias_sites:
            if s[0] != "equal":
                rewritten.add(l)
            else:
                not_fixed.append(l)
            continue
        if s[0] == "replace" and s[2] == new_text[l]:
            rewritten.add(l)
        elif s[0] == "equal":
            not_fixed.append(l)
        elif s[0] == "replace":
            st_.violation(cid, "permitted-line-rewritten-differently", {"case": case}, json.dumps({"line": l, "filtered": s[2], "unfiltered": new_text[l], **det})[:7000], features=feats)
    if not_fixed:
        st_.violation(cid, "permitted-line-not-fixed", {"case": case}, json.dumps({"lines": not_fixed, **det})[:7000], features=feats)
    # the twin file (same path tail, other directory) is not named by a relative or absolute pattern
    if case.get("twin") and spelling in ("relative", "absolute"):
        tb, tu, tf = obs_u.before.get(TWIN), obs_u.after.get(TWIN), obs_f.after.get(TWIN)
        if case["mode"] == "exclude" and tf != tu:
            st_.violation(cid, "pattern-for-one-file-applied-to-same-named-file-elsewhere", {"case": case}, json.dumps({"twin": TWIN, "expected": (tu or ("", b""))[1].decode("utf-8", "replace")[:1500], "got": (tf or ("", b""))[1].decode("utf-8", "replace")[:1500], "patterns": items}), features=feats)
        if case["mode"] == "include" and tf != tb:
            st_.violation(cid, "file-not-named-by-include-line-pattern-rewritten", {"case": case}, json.dumps({"twin": TWIN, "patterns": items, "got": (tf or ("", b""))[1].decode("utf-8", "replace")[:1500]}), features=feats)
    # change entries
    entries = [ch.get("lineNumber") for r in obs_f.res.report["results"] for cs in r.get("changeset", []) if cs["path"] == rel for ch in cs.get("changes", [])]
    new_of = {l: status[l][1] for l in status if status[l][0] in ("equal", "replace")}
    ok_numbers = set()
    for l in rewritten:
        ok_numbers |= {l, new_of.get(l, l)}
    # any other original line that did change (sites that are not 1->1, e.g. a def line that also gains a body
    # line) may legitimately be named too
    ok_numbers |= {l for l, s_ in status.items() if s_[0] != "equal" and l not in forbidden}
    # ... and a line that is itself unchanged but has new lines inserted right after/before it (a fix that adds a statement)
    for tag, i1, i2, j1, j2 in difflib.SequenceMatcher(a=before.split("\n"), b=after_f.split("\n"), autojunk=False).get_opcodes():
        if tag == "insert":
            ok_numbers |= {l for l in (i1, i1 + 1) if l not in forbidden}
    forb_numbers = set()
    for l in forbidden:
        forb_numbers |= {l, new_of.get(l, l)}
    bad_entries = [n for n in entries if n in forb_numbers and n not in ok_numbers]
    if bad_entries and not bad_forbidden:
        st_.violation(cid, "change-entry-names-forbidden-line", {"case": case}, json.dumps({"entries": entries, "bad": bad_entries, **det})[:7000], features=feats)
    missing = [l for l in sorted(rewritten) if l not in entries and new_of.get(l, l) not in entries]
    if missing:
        st_.violation(cid, "rewritten-line-without-change-entry", {"case": case}, json.dumps({"entries": entries, "missing": missing, **det})[:7000], features=feats)
    st_.case([cid, core.sha(f_u.before), items], bool(rewritten), labels + [f"sites={len(L)}"],
             sample={"codemod": cid, "option": opt, "patterns": [i.replace(str(proj), "$P") for i in items], "sites": L, "rewritten": sorted(rewritten), "change_lines": entries})
    return st_.violations[v0:]


def single_site_seeds(cid):
    """Seeds that stay useful when wrapped in a function (used to build multi-site files)."""
    seeds, _ = engine.seeds_for(cid)
    return seeds


def shards(tier, seed):
    out = engine.codemod_shards(tier, seed + 53, per_shard_quick=5, per_shard_thorough=40, kinds=("plain", "rule"), batch=1)
    return out


def run_shard(spec):
    stats = core.Stats()
    for cid, kind in spec["codemods"]:
        seeds = single_site_seeds(cid)
        if not seeds:
            continue
        n = spec["n"] if kind == "plain" else max(2, spec["n"] // 3)
        core.drive(line_case(cid, seeds), lambda c: eval_case(c, stats), n, spec["seed"] + engine.hash_str(cid) % 997)
    return stats


def replay(case):
    return eval_case(case["case"])
