"""C01 -- every file codemodder rewrites is still syntactically valid Python."""
from __future__ import annotations

import json

from .. import core, engine, progspace
from . import _prog

ID = "C01"
LEVEL = "exploration"
TECHNIQUE = "Hypothesis-generated programs (harvested triggers x context/layout transformations) through the real CLI; CPython compile()/ast.parse() as validity oracle on what is on disk afterwards"
RULE = (
    "for every registered codemod (detector-less, semgrep-rule-detected through the real semgrep binary, SAST-driven with shifted/replicated tool "
    "documents) Hypothesis draws programs = 1-3 harvested trigger snippets x wrap context (def/async/method/nested/if/try/with/for/while) x tabs x "
    "trailing comments x import alias x file layout (prepended comment/blank/docstring lines, appended lines, CRLF/mixed EOL, no final newline, BOM, form feed); "
    "oracle: compile(before) ok => compile(after) ok, else ast.parse(before) ok => ast.parse(after) ok, on the bytes found on disk.  "
    "Non-trivial = the run changed the file; distinct = distinct (codemod, input bytes)."
)
ASSUMPTIONS = [
    "trigger snippets are harvested from the repository's unit tests (input_code literals and results= documents) by AST inspection; transformations are validity-preserving and each rendered program is compile()-checked before use",
    "semgrep 1.90 binary in /venv/bin is the detector for rule-detected codemods; UTF-8 (with or without BOM) only",
    "codemod sequences K1;K2 in one run are exercised by C09's histories with the same oracle class (validity of the final tree is checked there)",
]


def judge(f, cid, kind, labels, stats, obs):
    changed = f.after is not None and f.changed
    key = [cid, core.sha(f.before)]
    if not changed:
        stats.case(key, False, labels)
        return
    lb = progspace.parse_level_bytes(f.before)
    la = progspace.parse_level_bytes(f.after)
    stats.case(key, True, labels + ["changed"], sample=_prog.sample_of(f))
    if la < lb:
        err = ""
        try:
            compile(f.after, "<after>", "exec", dont_inherit=True)
        except (SyntaxError, ValueError) as e:
            err = f"{type(e).__name__}: {e}"
        stats.violation(cid, "rewritten-file-no-longer-" + ("compiles" if lb == 2 and la == 1 else "parses"), _prog.single_case(f),
                        json.dumps({"error": err, "before": f.before.decode("utf-8", "replace"), "after": f.after.decode("utf-8", "replace")})[:6000],
                        features=[l for l in f.labels if l.startswith(("op:", "fop:"))])


def shards(tier, seed):
    return engine.codemod_shards(tier, seed, per_shard_quick=2, per_shard_thorough=30, batch=8)


def run_shard(spec):
    stats = core.Stats()
    _prog.run_programs(spec, judge, stats)
    return stats


def replay(case):
    return _prog.replay_program(case, judge)


def minimise(case, kind=None):
    return _prog.minimise_program(case, judge, kind)
