"""Campaign driver, statistics, known-findings protocol, evidence writer.

A property module (cmv/props/cXX.py) provides:

    ID, LEVEL, RULE, ASSUMPTIONS, TECHNIQUE
    shards(tier, seed) -> list of JSON-able shard specs
    run_shard(spec) -> Stats        (executed in a pool worker; uses Hypothesis inside)
    replay(case) -> list[Violation dict]   (re-evaluates one stored case, no Hypothesis)

Exit protocol:  0 = held (KNOWN-FINDING lines allowed), 1 = VIOLATION line(s), 2 = harness error.
"""
from __future__ import annotations

import collections
import hashlib
import json
import multiprocessing
import os
import sys
import time
import traceback

from . import boot

VERIF = boot.VERIF
KNOWN_FILE = os.path.join(VERIF, "known_findings.json")


class HarnessError(Exception):
    pass


def sha(obj) -> str:
    if not isinstance(obj, (bytes, str)):
        obj = json.dumps(obj, sort_keys=True, default=repr)
    if isinstance(obj, str):
        obj = obj.encode("utf-8", "surrogatepass")
    return hashlib.sha1(obj).hexdigest()


class Stats:
    """Mergeable campaign statistics."""

    MAX_SAMPLES = 8

    def __init__(self):
        self.evaluations = 0
        self.nontrivial = set()
        self.labels = collections.Counter()
        self.samples = []
        self.violations = []
        self.discarded = collections.Counter()
        self.errors = []
        self.extra = {}

    def case(self, key, nontrivial: bool, labels=(), sample=None):
        self.evaluations += 1
        for lab in labels:
            self.labels[lab] += 1
        if nontrivial:
            h = sha(key)
            if h not in self.nontrivial:
                self.nontrivial.add(h)
                if sample is not None and len(self.samples) < self.MAX_SAMPLES:
                    self.samples.append(sample)
            self.labels["nontrivial"] += 1
        else:
            self.labels["trivial"] += 1

    def violation(self, component, kind, case, detail="", features=()):
        self.violations.append(
            {
                "component": component,
                "kind": kind,
                "features": sorted(features),
                "case": case,
                "detail": detail if isinstance(detail, str) else json.dumps(detail, default=repr)[:4000],
            }
        )

    def discard(self, why):
        self.discarded[why] += 1

    def error(self, msg):
        if len(self.errors) < 20:
            self.errors.append(msg)

    def merge(self, other: "Stats"):
        self.evaluations += other.evaluations
        self.nontrivial |= other.nontrivial
        self.labels.update(other.labels)
        for s in other.samples:
            if len(self.samples) < self.MAX_SAMPLES:
                self.samples.append(s)
        self.violations.extend(other.violations)
        self.discarded.update(other.discarded)
        self.errors.extend(other.errors)
        for k, v in other.extra.items():
            if isinstance(v, (int, float)) and isinstance(self.extra.get(k, 0), (int, float)):
                self.extra[k] = self.extra.get(k, 0) + v
            elif isinstance(v, dict):
                d = self.extra.setdefault(k, {})
                for kk, vv in v.items():
                    if isinstance(vv, (int, float)):
                        d[kk] = d.get(kk, 0) + vv
                    else:
                        d[kk] = vv
            elif isinstance(v, list):
                self.extra.setdefault(k, []).extend(v)
            else:
                self.extra[k] = v
        return self


def signature(prop, v):
    feats = ",".join(v.get("features") or [])
    return f"{prop}|{v['component']}|{v['kind']}|{feats}"


# ----------------------------------------------------------------------------------------
# known findings


def load_known(prop):
    try:
        with open(KNOWN_FILE) as f:
            data = json.load(f)
    except FileNotFoundError:
        return [], []
    known = [e for e in data.get("findings", []) if e.get("property") == prop]
    fixed = [e for e in data.get("fixed", []) if e.get("property") == prop]
    return known, fixed


def matches_known(prop, v, entry):
    """A violation is the listed finding iff component and kind are equal and every feature
    the entry requires is among the violation's features (the entry names the failing
    input class; anything else -- other codemod, other kind, other shape -- is new)."""
    m = entry.get("match", {})
    comps = m.get("components") or [m.get("component")]
    if v["component"] not in comps or m.get("kind") != v["kind"]:
        return False
    need = set(m.get("features", []))
    if not need <= set(v.get("features") or []):
        return False
    dre = m.get("detail_contains")
    if dre and dre not in (v.get("detail") or ""):
        return False
    return True


# ----------------------------------------------------------------------------------------
# pool


def _worker(args):
    modname, spec = args
    import importlib

    mod = importlib.import_module(modname)
    try:
        st = mod.run_shard(spec)
    except HarnessError as e:
        st = Stats()
        st.error(f"harness: {e}")
    except BaseException:
        st = Stats()
        st.error("shard crashed: " + traceback.format_exc()[-3000:])
    return st


def run_campaign(mod, tier, seed, procs=None):
    specs = mod.shards(tier, seed)
    procs = procs or min(int(os.environ.get("CMV_PROCS", "16")), max(1, len(specs)))
    total = Stats()
    if procs == 1 or len(specs) == 1:
        for s in specs:
            total.merge(_worker((mod.__name__, s)))
        return total
    ctx = multiprocessing.get_context("fork")
    with ctx.Pool(procs, maxtasksperchild=None) as pool:
        for st in pool.imap_unordered(_worker, [(mod.__name__, s) for s in specs], chunksize=1):
            total.merge(st)
    return total


# ----------------------------------------------------------------------------------------
# main


def write_evidence(mod, tier, seed, st: Stats, wall, nviol, extra_cov=None):
    cov = {
        "evaluations": st.evaluations,
        "distinct_nontrivial": len(st.nontrivial),
        "rule": mod.RULE,
        "samples": st.samples[: Stats.MAX_SAMPLES],
        "classes": dict(sorted(st.labels.items())),
        "discarded": dict(st.discarded),
    }
    cov.update(st.extra)
    if extra_cov:
        cov.update(extra_cov)
    ev = {
        "property_id": mod.ID,
        "tier": tier,
        "seed": seed,
        "level": mod.LEVEL,
        "coverage": cov,
        "assumptions": list(getattr(mod, "ASSUMPTIONS", []))
        + [
            "python %s, PYTHONHASHSEED=0, code imported from /repo/src (editable install); entry-point metadata is the static dist-info"
            % sys.version.split()[0],
            "absence of violations is not established: the property held on the cases counted here",
        ],
        "wall_s": round(wall, 2),
        "violations": nviol,
    }
    evdir = os.environ.get("CMV_EVIDENCE_DIR") or os.path.join(VERIF, "evidence")  # redirected only by tools/mutant.sh
    os.makedirs(evdir, exist_ok=True)
    path = os.path.join(evdir, f"{mod.ID}.json")
    tmp = path + ".tmp"
    with open(tmp, "w") as f:
        json.dump(ev, f, indent=1, default=repr, ensure_ascii=False)
    os.replace(tmp, path)
    return path


def save_replay(prop, v, tier, seed):
    d = os.path.join(VERIF, "replays", "new", prop)
    os.makedirs(d, exist_ok=True)
    sig = signature(prop, v)
    path = os.path.join(d, sha(sig)[:12] + ".json")
    with open(path, "w") as f:
        json.dump(
            {"property": prop, "tier": tier, "seed": seed, "signature": sig, **v},
            f,
            indent=1,
            default=repr,
            ensure_ascii=False,
        )
    return os.path.relpath(path, VERIF)


def main(mod, argv):
    t0 = time.time()
    seed = boot.seed()
    if argv and argv[0] == "--replay":
        path = argv[1]
        with open(path if os.path.isabs(path) else os.path.join(VERIF, path)) as f:
            rp = json.load(f)
        from . import runner

        runner.preload()
        vs = mod.replay(rp["case"])
        if vs:
            for v in vs:
                print(f"REPRODUCED {signature(mod.ID, v)}\n  {v['detail'][:1500]}")
            print(f"VIOLATION property={mod.ID} replay={path}")
            return 1
        print("replay: property holds on this case")
        return 0

    if argv and argv[0] == "--minimise":
        path = argv[1]
        with open(path if os.path.isabs(path) else os.path.join(VERIF, path)) as f:
            rp = json.load(f)
        from . import runner

        runner.preload()
        small, ok = mod.minimise(rp["case"], rp.get("kind"))
        print(json.dumps({"property": mod.ID, "case": small}, indent=1, ensure_ascii=False))
        return 0 if ok else 2

    tier = argv[0] if argv else os.environ.get("VERIF_TIER", "quick")
    if tier not in ("quick", "thorough"):
        print(f"unknown tier {tier}", file=sys.stderr)
        return 2
    from . import runner

    runner.preload()
    known, fixed = load_known(mod.ID)

    st = run_campaign(mod, tier, seed)

    # regression tier: replay every stored case (known findings and fixed defects)
    replay_viol = []
    for entry in known + fixed:
        rp = entry.get("replay")
        if not rp:
            continue
        try:
            with open(os.path.join(VERIF, rp)) as f:
                case = json.load(f)["case"]
            vs = mod.replay(case)
        except HarnessError as e:
            st.error(f"replay {rp}: {e}")
            continue
        except Exception:
            st.error(f"replay {rp} crashed: {traceback.format_exc()[-1500:]}")
            continue
        st.labels["replayed"] += 1
        entry["_reproduced"] = bool(vs)
        for v in vs:
            v["_from_replay"] = rp
            replay_viol.append(v)

    # bucket: violations that match a listed finding are attributed to it; the rest are grouped by
    # (component, kind) and represented by the case with the fewest features / smallest input
    new_groups = {}
    known_hit = collections.Counter()
    for v in st.violations + replay_viol:
        ent = next((e for e in known if matches_known(mod.ID, v, e)), None)
        if ent is not None:
            known_hit[ent["id"]] += 1
        else:
            new_groups.setdefault((v["component"], v["kind"]), []).append(v)
    new = []
    for key, vs in sorted(new_groups.items()):
        v = min(vs, key=lambda x: (len(x.get("features") or []), len(json.dumps(x["case"], default=repr))))
        new.append((signature(mod.ID, v), v, len(vs)))

    for e in known:
        if known_hit.get(e["id"]) or e.get("_reproduced"):
            print(f"KNOWN-FINDING: property={mod.ID} {e['what_fails']} [{e['id']}; {known_hit.get(e['id'], 0)} case(s) this run]")

    rc = 0
    for sig, v, n in new:
        path = save_replay(mod.ID, v, tier, seed)
        print(f"  signature: {sig}  ({n} case(s))")
        print("  detail: " + (v["detail"] or "")[:1200].replace("\n", "\n          "))
        print(f"VIOLATION property={mod.ID} replay={path}")
        rc = 1

    wall = time.time() - t0
    write_evidence(
        mod,
        tier,
        seed,
        st,
        wall,
        len(new),
        {"known_findings_hit": dict(known_hit), "harness_errors": st.errors[:10]},
    )
    print(
        f"{mod.ID} {tier} seed={seed}: {st.evaluations} cases, {len(st.nontrivial)} distinct non-trivial, "
        f"{len(new)} new violation signature(s), {sum(known_hit.values())} known-finding case(s), {wall:.1f}s"
    )
    if st.errors:
        for e in st.errors[:10]:
            print("HARNESS-ERROR: " + e, file=sys.stderr)
        if rc == 0:
            rc = 2
    if rc == 0 and len(st.nontrivial) < 2:
        print("HARNESS-ERROR: fewer than 2 non-trivial cases", file=sys.stderr)
        rc = 2
    return rc


# ----------------------------------------------------------------------------------------
# Hypothesis helper


def hyp_settings(max_examples, **kw):
    from hypothesis import HealthCheck, Phase, settings

    return settings(
        max_examples=max_examples,
        database=None,
        deadline=None,
        derandomize=False,
        report_multiple_bugs=False,
        suppress_health_check=list(HealthCheck),
        phases=kw.pop("phases", (Phase.generate,)),
        **kw,
    )


def drive(strategy, fn, max_examples, seed_value):
    """Run `fn(case)` over `max_examples` draws of `strategy`, seeded; collect-mode (fn must not raise
    for violations)."""
    from hypothesis import given, seed

    # Hypothesis' first example is the all-minimal one whatever the seed: with the small per-shard budgets of the
    # expensive properties that would spend a large share of the runs on one and the same trivial input, so the
    # first draw is generated but not evaluated.
    state = {"first": True}

    @seed(seed_value)
    @hyp_settings(max_examples + 1)
    @given(strategy)
    def _t(case):
        if state["first"]:
            state["first"] = False
            return
        fn(case)

    _t()
