"""Execute a generated, closed, deterministic program in a forked child and observe (stdout, exception type)."""
from __future__ import annotations

import os
import signal
import sys
import tempfile
import time
import traceback
from pathlib import Path


def observe(src: str, workdir: Path, files: dict | None = None, timeout=6.0):
    """-> {"stdout": str, "exc": str|None, "timed_out": bool}.  `files` are written into workdir first."""
    workdir.mkdir(parents=True, exist_ok=True)
    for rel, content in (files or {}).items():
        p = workdir / rel
        p.parent.mkdir(parents=True, exist_ok=True)
        p.write_text(content)
    out_p = workdir / "__stdout__"
    exc_p = workdir / "__exc__"
    sys.stdout.flush()
    sys.stderr.flush()
    pid = os.fork()
    if pid == 0:
        code = 0
        try:
            os.setpgid(0, 0)
            fo = os.open(out_p, os.O_WRONLY | os.O_CREAT | os.O_TRUNC)
            os.dup2(fo, 1)
            os.dup2(fo, 2)
            sys.stdout = os.fdopen(1, "w", buffering=1, closefd=False)
            sys.stderr = sys.stdout
            os.chdir(workdir)
            sys.path.insert(0, str(workdir))
            sys.argv = ["prog.py"]
            import logging

            for h in list(logging.root.handlers):
                logging.root.removeHandler(h)
            logging.root.setLevel(logging.WARNING)
            import warnings

            warnings.simplefilter("ignore")
            ns = {"__name__": "__main__", "__file__": str(workdir / "prog.py")}
            try:
                exec(compile(src, "prog.py", "exec"), ns)
                exc = ""
            except SystemExit as e:
                exc = "SystemExit"
            except BaseException as e:  # noqa
                exc = type(e).__name__
            sys.stdout.flush()
            with open(exc_p, "w") as f:
                f.write(exc)
        except BaseException:
            code = 3
        finally:
            os._exit(code)
    t0 = time.time()
    timed_out = False
    while True:
        wpid, st = os.waitpid(pid, os.WNOHANG)
        if wpid == pid:
            break
        if time.time() - t0 > timeout:
            timed_out = True
            try:
                os.killpg(pid, signal.SIGKILL)
            except ProcessLookupError:
                pass
            os.waitpid(pid, 0)
            break
        time.sleep(0.002)
    stdout = out_p.read_text(errors="replace") if out_p.exists() else ""
    exc = exc_p.read_text() if exc_p.exists() else "<crash>"
    return {"stdout": stdout, "exc": exc or None, "timed_out": timed_out}
