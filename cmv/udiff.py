"""Strict unified-diff applier (independent of difflib).

Lines are split on '\n' ONLY (never str.splitlines), so a line's content keeps its '\r' and any
exotic separator.  Hunk positions, context lines and '-' lines must match the current text exactly.
Because the repository pins (tests/test_diff.py::test_diff_newline_edge_case) that a last line
without a newline shows up as '-X'/'+X' lines that do end in '\n', the presence of the text's final
'\n' is the one thing that is not compared (the property grants exactly that tolerance).
"""
from __future__ import annotations

import re

HUNK = re.compile(r"^@@ -(\d+)(?:,(\d+))? \+(\d+)(?:,(\d+))? @@")


class DiffError(Exception):
    pass


def split_lines(text: str):
    """Split on '\n' only; a trailing '\n' does not create an extra empty line."""
    if text == "":
        return []
    parts = text.split("\n")
    if parts[-1] == "":
        parts.pop()
    return parts


def apply(diff: str, before: str) -> str:
    """Returns the patched text, always ending in '\n' unless empty (final newline is not tracked)."""
    src = split_lines(before)
    dl = split_lines(diff)
    i = 0
    # header
    while i < len(dl) and not dl[i].startswith("@@"):
        if not (dl[i].startswith("---") or dl[i].startswith("+++") or dl[i] == ""):
            raise DiffError(f"unexpected line before first hunk: {dl[i]!r}")
        i += 1
    if i >= len(dl):
        raise DiffError("no hunk in diff")
    out = []
    pos = 0  # index into src (0-based) of next unconsumed line
    while i < len(dl):
        m = HUNK.match(dl[i])
        if not m:
            raise DiffError(f"expected hunk header, got {dl[i]!r}")
        a = int(m.group(1))
        alen = 1 if m.group(2) is None else int(m.group(2))
        blen = 1 if m.group(4) is None else int(m.group(4))
        start = a - 1 if alen > 0 else a  # '-0,0' style: insertion after line a
        if start < pos:
            raise DiffError("overlapping or unordered hunks")
        out.extend(src[pos:start])
        pos = start
        i += 1
        seen_a = seen_b = 0
        while i < len(dl) and not dl[i].startswith("@@"):
            line = dl[i]
            if seen_a == alen and seen_b == blen:
                break
            tag, body = (line[0], line[1:]) if line else (" ", "")
            if tag == " ":
                if pos >= len(src) or src[pos] != body:
                    raise DiffError(f"context mismatch at source line {pos + 1}: diff has {body!r}, file has {src[pos] if pos < len(src) else None!r}")
                out.append(body)
                pos += 1
                seen_a += 1
                seen_b += 1
            elif tag == "-":
                if pos >= len(src) or src[pos] != body:
                    raise DiffError(f"removed-line mismatch at source line {pos + 1}: diff has {body!r}, file has {src[pos] if pos < len(src) else None!r}")
                pos += 1
                seen_a += 1
            elif tag == "+":
                out.append(body)
                seen_b += 1
            elif tag == "\\":
                pass
            else:
                raise DiffError(f"bad diff line {line!r}")
            i += 1
        if seen_a != alen or seen_b != blen:
            raise DiffError(f"hunk length mismatch: header says -{alen} +{blen}, body has -{seen_a} +{seen_b}")
    out.extend(src[pos:])
    return "".join(l + "\n" for l in out)


def equal_upto_final_newline(a: str, b: str) -> bool:
    def norm(s):
        return s[:-1] if s.endswith("\n") else s

    return norm(a) == norm(b)


def check_roundtrip(diff: str, before: str, after: str):
    """None if patch(diff, before) == after up to the final newline, else an explanation."""
    try:
        got = apply(diff, before)
    except DiffError as e:
        return f"diff does not apply: {e}"
    if not equal_upto_final_newline(got, after):
        # find first differing line
        g, w = split_lines(got), split_lines(after)
        for k, (x, y) in enumerate(zip(g, w)):
            if x != y:
                return f"patched text differs from content on disk at line {k + 1}: patched {x!r}, disk {y!r}"
        return f"patched text has {len(g)} lines, content on disk has {len(w)}"
    return None
