"""Scope-aware unresolved-name oracle built on the stdlib `symtable` (independent of libcst).

unresolved(src) = names that some scope reads as a global/free variable although the name is bound
neither at module level (assignment, import, def/class, `global` declaration assigned anywhere,
loop/with/except targets, walrus) nor is a builtin.  Flow-insensitive, exactly like the property
statement ("read but bound neither in an enclosing scope, at module level, nor as builtins").
"""
from __future__ import annotations

import ast
import builtins
import symtable

BUILTINS = set(dir(builtins)) | {"__file__", "__name__", "__doc__", "__builtins__", "__spec__", "__loader__", "__package__", "__path__", "__annotations__", "__dict__", "__class__", "__debug__"}


class StarImport(Exception):
    pass


def _module_bound(top: symtable.SymbolTable):
    bound = set()
    for s in top.get_symbols():
        if s.is_assigned() or s.is_imported() or s.is_namespace():
            bound.add(s.get_name())
    return bound


def _walk(t: symtable.SymbolTable):
    yield t
    for c in t.get_children():
        yield from _walk(c)


def unresolved(src):
    """src: bytes or str that parses.  Raises SyntaxError if it does not; StarImport if `from x import *`."""
    if isinstance(src, bytes):
        tree = ast.parse(src)
        # symtable wants text; honour BOM / coding cookie through ast round trip of the decoded text
        import tokenize, io

        enc, _ = tokenize.detect_encoding(io.BytesIO(src).readline)
        text = src.decode(enc)
        if text.startswith("﻿"):
            text = text[1:]
    else:
        text = src
        tree = ast.parse(text)
    for n in ast.walk(tree):
        if isinstance(n, ast.ImportFrom) and any(a.name == "*" for a in n.names):
            raise StarImport()
    top = symtable.symtable(text, "<case>", "exec")
    bound = _module_bound(top)
    # names declared global in a nested scope and assigned there are module bindings too
    for t in _walk(top):
        if t is top:
            continue
        for s in t.get_symbols():
            if s.is_declared_global() and s.is_assigned():
                bound.add(s.get_name())
    out = set()
    for t in _walk(top):
        for s in t.get_symbols():
            if not s.is_referenced():
                continue
            name = s.get_name()
            if t is top:
                if not (s.is_assigned() or s.is_imported() or s.is_namespace()) and name not in BUILTINS and name not in bound:
                    out.add(name)
            else:
                if s.is_global():  # implicit or explicit global read
                    if name not in bound and name not in BUILTINS:
                        out.add(name)
                # free variables are resolved by an enclosing function scope by construction;
                # class-scope names fall back to globals when not local
    return out
