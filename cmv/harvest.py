"""Harvest trigger snippets (and, for SAST codemods, the tool result documents that go with them)
from the repository's own unit tests by AST inspection.  Harvested text is only a *seed*;
cmv.progspace applies validity-preserving transformations on top.

Nothing is imported from the tests: files are parsed with `ast`, literals evaluated with
`ast.literal_eval`.  Codemod classes named in `codemod = X` are resolved by importing X from the
module the test imports it from (repository source code, not test code).
"""
from __future__ import annotations

import ast
import functools
import importlib
import json
import os
import re
import textwrap

from . import boot

TESTS = os.path.join(boot.REPO, "tests", "codemods")

INPUT_NAME = re.compile(r"(input|code|original|before|src|source)", re.I)
OUTPUT_NAME = re.compile(r"(expected|output|after|result)", re.I)


def _str(node):
    if isinstance(node, ast.Constant) and isinstance(node.value, str):
        return node.value
    # """...""".lstrip("\n") and friends
    if (
        isinstance(node, ast.Call)
        and isinstance(node.func, ast.Attribute)
        and node.func.attr in ("lstrip", "rstrip", "strip")
        and isinstance(node.func.value, ast.Constant)
        and isinstance(node.func.value.value, str)
    ):
        try:
            args = [ast.literal_eval(a) for a in node.args]
            return getattr(node.func.value.value, node.func.attr)(*args)
        except Exception:
            return None
    if isinstance(node, ast.Call) and isinstance(node.func, ast.Name) and node.func.id == "dedent" and node.args:
        return _str(node.args[0])
    return None


def _parametrize_bindings(tree):
    """All pytest.mark.parametrize(...) calls of a file -> list of {param: value} dicts (literal values only)."""
    out = []
    for call in [n for n in ast.walk(tree) if isinstance(n, ast.Call)]:
        if isinstance(call.func, ast.Attribute) and call.func.attr == "parametrize" and len(call.args) >= 2:
            names = _str(call.args[0])
            if names is None:
                continue
            names = [n.strip() for n in names.split(",")]
            try:
                vals = ast.literal_eval(call.args[1])
            except Exception:
                continue
            for v in vals:
                if len(names) == 1:
                    out.append({names[0]: v})
                elif isinstance(v, (tuple, list)) and len(v) == len(names):
                    out.append(dict(zip(names, v)))
    return out


def _fstr_expand(node, bindings):
    """f-string whose placeholders are all parametrize parameters -> list of expansions."""
    if not isinstance(node, ast.JoinedStr):
        return []
    need = set()
    for part in node.values:
        if isinstance(part, ast.FormattedValue):
            if not isinstance(part.value, ast.Name) or part.format_spec is not None or part.conversion != -1:
                return []
            need.add(part.value.id)
    res = []
    for b in bindings:
        if need <= set(b):
            res.append("".join(p.value if isinstance(p, ast.Constant) else str(b[p.value.id]) for p in node.values))
    return list(dict.fromkeys(res))


class _Unresolved(Exception):
    pass


def _literal(node, env):
    """literal_eval with name lookup in `env` (simple constant propagation inside one function).
    Returns None when any part cannot be resolved (a partially resolved document is never used)."""
    try:
        return _lit(node, env)
    except _Unresolved:
        return None


def _lit(node, env):
    try:
        return ast.literal_eval(node)
    except Exception:
        pass
    s = _str(node)
    if s is not None:
        return s
    if isinstance(node, ast.Name) and node.id in env:
        return env[node.id]
    if isinstance(node, ast.Call) and isinstance(node.func, ast.Attribute) and node.func.attr == "dumps" and node.args:
        return _lit(node.args[0], env)
    if isinstance(node, ast.Dict):
        if any(k is None for k in node.keys):
            raise _Unresolved()
        return {_lit(k, env): _lit(v, env) for k, v in zip(node.keys, node.values)}
    if isinstance(node, (ast.List, ast.Tuple)):
        return [_lit(e, env) for e in node.elts]
    raise _Unresolved()


def _resolve_codemod_id(tree, class_node):
    """codemod = X  ->  registered id, by importing X from the (src) module the test imports it from."""
    target = None
    for st in class_node.body:
        if isinstance(st, ast.Assign) and any(isinstance(t, ast.Name) and t.id == "codemod" for t in st.targets):
            if isinstance(st.value, ast.Name):
                target = st.value.id
    if target is None:
        return None
    for st in tree.body:
        if isinstance(st, ast.ImportFrom) and any(a.name == target or a.asname == target for a in st.names):
            if st.module and (st.module.startswith("core_codemods") or st.module.startswith("codemodder")):
                try:
                    mod = importlib.import_module(st.module)
                    obj = getattr(mod, next(a.name for a in st.names if (a.asname or a.name) == target))
                    inst = obj() if isinstance(obj, type) else obj
                    return inst.id
                except Exception:
                    return None
    return None


def _use_before_import(tree):
    """A top-level name is read on an earlier line than the top-level import that binds it: the snippet is
    already broken at run time (NameError / UnboundLocalError once wrapped in a function).  Such negative-test
    inputs are not used as seeds."""
    imports = {}
    for st in tree.body:
        if isinstance(st, (ast.Import, ast.ImportFrom)):
            for a in st.names:
                imports.setdefault((a.asname or a.name).split(".")[0], st.lineno)
    if not imports:
        return False
    bound_otherwise = {n.id for n in ast.walk(tree) if isinstance(n, ast.Name) and isinstance(n.ctx, ast.Store)}
    for n in ast.walk(tree):
        if isinstance(n, ast.Name) and isinstance(n.ctx, ast.Load) and n.id in imports and n.id not in bound_otherwise and n.lineno < imports[n.id]:
            return True
    return False


EXCLUDED = {"use-before-import": 0}


def _usable(code):
    code = textwrap.dedent(code)
    if not code.strip():
        return None
    if not code.endswith("\n"):
        code += "\n"
    try:
        tree = ast.parse(code)
    except (SyntaxError, ValueError):
        return None
    if _use_before_import(tree):
        EXCLUDED["use-before-import"] += 1
        return None
    return code


@functools.lru_cache(maxsize=None)
def harvest():
    """-> {codemod_id: {"seeds": [code...], "sast": [{"code":..., "results": doc, "file": "code.py"}...]}}"""
    out = {}
    for dirpath, _, files in sorted(os.walk(TESTS)):
        for fn in sorted(files):
            if not (fn.startswith("test_") and fn.endswith(".py")):
                continue
            path = os.path.join(dirpath, fn)
            try:
                tree = ast.parse(open(path, encoding="utf-8").read())
            except SyntaxError:
                continue
            bindings = _parametrize_bindings(tree)
            for cls in [n for n in tree.body if isinstance(n, ast.ClassDef)]:
                cid = _resolve_codemod_id(tree, cls)
                if not cid:
                    continue
                slot = out.setdefault(cid, {"seeds": [], "sast": [], "expected": [], "unchanged": []})
                methods = [n for n in cls.body if isinstance(n, (ast.FunctionDef, ast.AsyncFunctionDef))]
                # helper methods that carry the results document (e.g. _run_and_assert_with_results)
                helper_docs = {}
                for m in methods:
                    if not m.name.startswith("test"):
                        tmp = {"seeds": [], "sast": [], "expected": [], "unchanged": []}
                        env = _harvest_function(m, tmp, bindings, {}, tree)
                        for call in [n for n in ast.walk(m) if isinstance(n, ast.Call)]:
                            kw = {k.arg: k.value for k in call.keywords if k.arg}
                            if "results" in kw:
                                doc = _literal(kw["results"], env)
                                if isinstance(doc, str):
                                    try:
                                        doc = json.loads(doc)
                                    except Exception:
                                        doc = None
                                if isinstance(doc, dict):
                                    helper_docs[m.name] = doc
                for fnode in methods:
                    _harvest_function(fnode, slot, bindings, helper_docs, tree)
    for cid, slot in out.items():
        slot["seeds"] = list(dict.fromkeys(slot["seeds"]))
        slot["expected"] = list(dict.fromkeys(slot["expected"]))
        slot["unchanged"] = list(dict.fromkeys(slot.get("unchanged", [])))
        # a fixture the repository's own test expects to stay as it is (a declined shape) is not a site to replicate
        neg = set(slot["unchanged"])
        declined = [x for x in slot.get("sast", []) if x["code"] in neg]
        if declined:
            slot["sast"] = [x for x in slot["sast"] if x["code"] not in neg]
            slot["sast_declined"] = declined
        seen = set()
        uniq = []
        for s in slot["sast"]:
            k = json.dumps(s, sort_keys=True)
            if k not in seen:
                seen.add(k)
                uniq.append(s)
        slot["sast"] = uniq
    return out


def _module_env(tree):
    env = {}
    for st in tree.body:
        if isinstance(st, ast.Assign) and len(st.targets) == 1 and isinstance(st.targets[0], ast.Name):
            s = _str(st.value)
            if s is not None:
                env[st.targets[0].id] = s
            else:
                try:
                    env[st.targets[0].id] = ast.literal_eval(st.value)
                except Exception:
                    pass
    return env


def _harvest_function(fnode, slot, bindings=(), helper_docs=None, tree=None):
    env = dict(_module_env(tree)) if tree is not None else {}
    helper_docs = helper_docs or {}
    inputs = []
    # parametrize decorators
    for dec in fnode.decorator_list:
        if isinstance(dec, ast.Call) and isinstance(dec.func, ast.Attribute) and dec.func.attr == "parametrize" and len(dec.args) >= 2:
            names = _str(dec.args[0]) or ""
            names = [n.strip() for n in names.split(",")]
            vals = dec.args[1]
            if isinstance(vals, (ast.List, ast.Tuple)):
                for el in vals.elts:
                    if isinstance(el, (ast.Tuple, ast.List)):
                        vals_ = [(nm, _str(sub)) for nm, sub in zip(names, el.elts)]
                        ins = [v for nm, v in vals_ if v is not None and INPUT_NAME.search(nm) and not OUTPUT_NAME.search(nm)]
                        outs = [v for nm, v in vals_ if v is not None and OUTPUT_NAME.search(nm)]
                        if ins and outs and ins[0] == outs[0]:
                            u = _usable(ins[0])
                            if u:
                                slot.setdefault("unchanged", []).append(u)
                        for nm, sub in zip(names, el.elts):
                            s = _str(sub)
                            if s is not None and INPUT_NAME.search(nm) and not OUTPUT_NAME.search(nm):
                                inputs.append(s)
                            elif s is not None and OUTPUT_NAME.search(nm):
                                u = _usable(s)
                                if u:
                                    slot["expected"].append(u)
                    else:
                        s = _str(el)
                        if s is not None and len(names) == 1 and "\n" in s or (s and INPUT_NAME.search(names[0] if names else "")):
                            inputs.append(s)
    for st in ast.walk(fnode):
        if isinstance(st, ast.Assign) and all(isinstance(t, ast.Name) for t in st.targets):
            # `expected = original_code = """..."""` binds both: prefer the input-like name
            names = [t.id for t in st.targets]
            name = next((n for n in names if INPUT_NAME.search(n) and not OUTPUT_NAME.search(n)), names[0])
            s = _str(st.value)
            if s is None and isinstance(st.value, ast.JoinedStr):
                exp = _fstr_expand(st.value, bindings)
                if exp:
                    env[name] = exp[0]
                    if INPUT_NAME.search(name) and not OUTPUT_NAME.search(name):
                        inputs.extend(exp)
                    continue
            if s is not None:
                for n_ in names:  # a chained assignment binds every target
                    env[n_] = s
                if INPUT_NAME.search(name) and not OUTPUT_NAME.search(name):
                    inputs.append(s)
                elif OUTPUT_NAME.search(name):
                    u = _usable(s)
                    if u:
                        slot["expected"].append(u)
            else:
                v = _literal(st.value, env)
                if v is not None:
                    env[name] = v
    # calls carrying results=
    for call in [n for n in ast.walk(fnode) if isinstance(n, ast.Call)]:
        kw = {k.arg: k.value for k in call.keywords if k.arg}
        if "results" in kw and isinstance(call.func, ast.Attribute) and call.func.attr.startswith("run_and_assert"):
            doc = _literal(kw["results"], env)
            if isinstance(doc, str):
                try:
                    doc = json.loads(doc)
                except Exception:
                    doc = None
            code = None
            if len(call.args) >= 2:
                a = call.args[1]
                code = _str(a) if _str(a) is not None else (env.get(a.id) if isinstance(a, ast.Name) else None)
            if isinstance(doc, dict) and isinstance(code, str):
                u = _usable(code)
                if u:
                    slot["sast"].append({"code": u, "results": doc})
        elif isinstance(call.func, ast.Attribute) and call.func.attr in helper_docs and len(call.args) >= 2:
            a = call.args[1]
            code = _str(a) if _str(a) is not None else (env.get(a.id) if isinstance(a, ast.Name) else None)
            if isinstance(code, str):
                u = _usable(code)
                if u:
                    slot["sast"].append({"code": u, "results": helper_docs[call.func.attr]})
    # which inputs does the repository's own test expect to stay unchanged (negative tests)?
    for call in [n for n in ast.walk(fnode) if isinstance(n, ast.Call)]:
        if isinstance(call.func, ast.Attribute) and call.func.attr.startswith("run_and_assert") and len(call.args) >= 3:
            def val(a):
                v = _str(a)
                if v is None and isinstance(a, ast.Name):
                    v = env.get(a.id)
                return v if isinstance(v, str) else None

            a, b = val(call.args[1]), val(call.args[2])
            if a is not None and b is not None and a == b:
                u = _usable(a)
                if u:
                    slot.setdefault("unchanged", []).append(u)
    for s in inputs:
        u = _usable(s)
        if u:
            slot["seeds"].append(u)
    return env


def summary():
    h = harvest()
    return {cid: (len(s["seeds"]), len(s["sast"])) for cid, s in sorted(h.items())}
